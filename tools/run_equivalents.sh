#!/usr/bin/env bash
# False-alarm test: applies every behaviour-preserving refactoring under /verif/equivalent/<name>/patch.diff
# to a scratch worktree of /repo and runs all quick checks against it; every check must exit 0.
# usage: tools/run_equivalents.sh [name-substring]     env NAMES="r4 r14" restricts to exact names, CHECKS="C11 C16" to some checks
set -u
cd "$(dirname "$(readlink -f "$0")")/.."
WT=/tmp/verif-equiv-$$
for d in equivalent/*/; do
  name=$(basename "$d")
  case "$name" in *"${1:-}"*) ;; *) continue;; esac
  if [ -n "${NAMES:-}" ]; then case " $NAMES " in *" $name "*) ;; *) continue;; esac; fi
  git -C /repo worktree remove --force "$WT" >/dev/null 2>&1
  git -C /repo worktree add -q --detach "$WT" HEAD || exit 2
  if ! git -C "$WT" apply "$PWD/$d/patch.diff"; then echo "$name: PATCH-DOES-NOT-APPLY"; git -C /repo worktree remove --force "$WT"; continue; fi
  mkdir -p "$WT/.verif-out"
  res=""
  for p in ${CHECKS:-C07 C10 C11 C12 C16 C17 C18 C19}; do
    out=$(VERIF_REPO_ROOT="$WT" VERIF_EVIDENCE_DIR="$WT/.verif-out" VERIF_REPLAY_DIR="$WT/.verif-out" ./check $p quick 2>&1); rc=$?
    if [ $rc -eq 0 ]; then res="$res $p:ok"; else res="$res $p:ALARM(rc=$rc)"; echo "$out" | grep -E "VIOLATION|key=|detail|harness" | head -6 | cut -c1-400; fi
  done
  echo "$name:$res"
  tag=$(printf '%s' "$WT" | md5sum | cut -c1-10)
  git -C /repo worktree remove --force "$WT" >/dev/null 2>&1; rm -rf "$WT" "build/sim-$tag" "build/simsh-$tag" "build/target-$tag" "build/target-sfs-$tag" "build/target-simsh-$tag" build/bin/*-"$tag"
done
