#!/usr/bin/env python3
"""Generates /verif/mutants/*.patch: deliberate property-breaking changes to malthesr/sfs used by
`./check selftest sensitivity`. Each is produced in a scratch worktree outside /repo and /verif."""
import subprocess, os, sys, shutil, json
ROOT = os.path.dirname(os.path.dirname(os.path.abspath(__file__)))
WT = "/tmp/verif-mkmut-%d" % os.getpid()

M = [
 # (name, property, file, old, new, note)
 ("c11_totals_not_reset", "C11", "core/src/input/site/reader.rs", "        self.totals.set_zero();\n", "", "called totals leak into the next record"),
 ("c11_skipped_not_cleared", "C11", "core/src/input/site/reader.rs", "        self.skipped_samples.clear();\n", "", "skipped-sample list leaks into the next record"),
 ("c11_projection_buffer_not_zeroed", "C11", "core/src/spectrum/project.rs", "        self.to_buf.set_zero();\n\n", "", "projection index buffer reused without zeroing"),
 ("c10_error_ends_stream", "C10", "cli/src/create/runner.rs",
  """                ReadStatus::Error(e) => {
                    return Err(anyhow!(
                        "encountered genotype error at site '{}:{}': {e}",
                        self.reader.current_contig(),
                        self.reader.current_position()
                    ))
                }""",
  """                ReadStatus::Error(e) => {
                    log::warn!(
                        "encountered genotype error at site '{}:{}': {e}",
                        self.reader.current_contig(),
                        self.reader.current_position()
                    );
                    break;
                }""", "a record error ends the stream and the partial spectrum is written"),
 ("c10_skipped_not_in_total", "C10", "cli/src/create/runner.rs",
  """                ReadStatus::Read(Site::InsufficientData) => {
                    self.handle_skipped_site()?;
                }""",
  """                ReadStatus::Read(Site::InsufficientData) => {
                    self.handle_skipped_site()?;
                    continue;
                }""", "skipped sites are not counted in the total of 'Skipped X/Y'"),
 ("c10_strict_only_from_second", "C10", "cli/src/create/runner.rs",
  "        if self.strict {\n            return Err(anyhow!(",
  "        if self.strict && self.sites > 0 {\n            return Err(anyhow!(", "strict mode ignores a violation at the very first record"),
 ("c12_shape_in_hash_order", "C12", "core/src/input/sample.rs",
  """            (0..population_sizes.len())
                .map(|id| 1 + 2 * population_sizes.get(&population::Id(id)).unwrap())
                .collect(),""",
  """            population_sizes.values().map(|n| 1 + 2 * n).collect(),""", "axis lengths follow hash iteration order"),
 ("c12_stdin_assumes_vcf", "C12", "core/src/input/genotype/reader/builder.rs",
  "            input::Reader::Stdin(reader) => self.build_from_reader(reader),",
  "            input::Reader::Stdin(reader) => self.set_format(Format::Vcf).build_from_reader(reader),", "format detection skipped on stdin: BCF on stdin fails"),
 ("c18_npy_read_not_exact", "C18", "core/src/array/npy/header.rs",
  "            reader.read_exact(&mut buf)?;\n            Ok(<$ty>::$fn(buf) as f64)",
  "            let _ = reader.read(&mut buf)?;\n            Ok(<$ty>::$fn(buf) as f64)", "npy values read with read() instead of read_exact()"),
 ("c18_npy_write_not_all", "C18", "core/src/array/npy.rs",
  "        writer.write_all(&v.to_le_bytes())?;", "        let _ = writer.write(&v.to_le_bytes())?;", "npy values written with write() instead of write_all()"),
 ("c18_npy_error_is_eof", "C18", "core/src/array/npy/header.rs",
  "        while !reader.fill_buf()?.is_empty() {", "        while !reader.fill_buf().unwrap_or(&[]).is_empty() {", "a read error in the npy value loop is treated as end of file"),
 ("c18_padding_write_ignored", "C18", "core/src/array/npy/header.rs",
  "        writer.write_all(&pad[..])", "        let _ = writer.write_all(&pad[..]);\n        Ok(())", "result of writing the header padding ignored"),
 ("c18_detect_single_fill_buf", "C18", "core/src/input/genotype/reader/builder.rs",
  """        let mut prefix = Vec::new();
        reader
            .by_ref()
            .take(DETECTION_PREFIX_LEN)
            .read_to_end(&mut prefix)?;
        let mut reader = io::Cursor::new(prefix).chain(reader);
""", "        let _ = DETECTION_PREFIX_LEN;\n", "regression: the repaired detection defect returns (fixed findings suppress nothing)"),
 ("c16_npy_stops_at_declared_count", "C16", "core/src/array/npy.rs",
  "            let values = descr.read(reader)?;\n",
  "            let mut values = descr.read(reader)?;\n            values.truncate(dict.shape.iter().product());\n", "npy reader ignores values beyond the declared count (stale tail accepted)"),
 ("c16_text_ignores_extra_tokens", "C16", "core/src/spectrum/io/text.rs",
  "    s.split_ascii_whitespace()\n        .map(f64::from_str)",
  "    s.split_ascii_whitespace()\n        .take(shape.elements())\n        .map(f64::from_str)", "text reader ignores tokens beyond the declared count"),
 ("c07_values_big_endian", "C07", "core/src/array/npy.rs",
  "        writer.write_all(&v.to_le_bytes())?;", "        writer.write_all(&v.to_be_bytes())?;", "npy values written big-endian under a '<f8' header"),
 ("c07_precision_capped", "C07", "core/src/spectrum/io/text.rs",
  "    let header = Header::new(spectrum.array.shape().clone());\n    header.write(writer)?;\n\n    writeln!(",
  "    let header = Header::new(spectrum.array.shape().clone());\n    header.write(writer)?;\n    let precision = precision.min(15);\n\n    writeln!(", "text precision silently capped at 15 decimals"),
 ("c07_text_shape_reversed_3d", "C07", "core/src/spectrum/io/text.rs",
  "        let shape_fmt = self\n            .shape\n            .iter()\n            .map(|x| x.to_string())\n            .collect::<Vec<_>>()\n            .join(\"/\");",
  "        let mut parts = self\n            .shape\n            .iter()\n            .map(|x| x.to_string())\n            .collect::<Vec<_>>();\n        if parts.len() > 2 {\n            parts.reverse();\n        }\n        let shape_fmt = parts.join(\"/\");", "text header lists the axes in reverse order for three or more axes"),
 ("c17_header_parse_unwrap", "C17", "core/src/spectrum/io/text.rs",
  "            .map(usize::from_str)\n            .collect::<Result<Vec<_>, _>>()\n            .map_err(|_| ParseHeaderError(String::from(s)))",
  "            .map(|x| Ok::<usize, ParseHeaderError>(usize::from_str(x).expect(\"shape entry\")))\n            .collect::<Result<Vec<_>, _>>()", "text header parse unwraps"),
 ("c19_get_axis_off_by_one", "C19", "core/src/array.rs",
  "        if axis.0 >= self.dimensions() || index >= self.shape[axis.0] {", "        if axis.0 > self.dimensions() || index >= self.shape[axis.0] {", "regression: repaired bounds test returns"),
 ("c19_view_iter_not_fused", "C19", "core/src/array/view/iter.rs",
  "        if self.index >= self.len {\n            // Exhausted: stay exhausted, and leave the odometer alone\n            None\n        } else if self.index == 0 {",
  "        if self.index == 0 {", "regression: view iterator restarts after exhaustion"),
]

def run(*a, **k):
    return subprocess.run(a, capture_output=True, text=True, **k)

def main():
    os.makedirs(os.path.join(ROOT, "mutants"), exist_ok=True)
    r = run("git", "-C", "/repo", "worktree", "add", "--detach", WT, "HEAD")
    if r.returncode: sys.exit(r.stderr)
    index = []
    try:
        for name, prop, f, old, new, note in M:
            p = os.path.join(WT, f)
            s = open(p).read()
            if s.count(old) != 1:
                print("SKIP (anchor not unique/found):", name, s.count(old)); continue
            open(p, "w").write(s.replace(old, new))
            d = run("git", "-C", WT, "diff").stdout
            open(os.path.join(ROOT, "mutants", name + ".patch"), "w").write(d)
            run("git", "-C", WT, "checkout", "--", ".")
            index.append({"name": name, "property": prop, "file": f, "note": note})
            print("ok", name)
        json.dump(index, open(os.path.join(ROOT, "mutants", "index.json"), "w"), indent=1)
    finally:
        run("git", "-C", "/repo", "worktree", "remove", "--force", WT)
        shutil.rmtree(WT, ignore_errors=True)

if __name__ == "__main__":
    main()
