#!/usr/bin/env python3
"""Merges the logs of `./check selftest sensitivity` runs into selftest-sensitivity.json and prints
the markdown table used in DESIGN.md section 12.3. Usage: merge_sens.py before:<log>... after:<log>..."""
import re, sys, json, os, glob
ROOT = os.path.dirname(os.path.dirname(os.path.abspath(__file__)))
res = {}
pat = re.compile(r'^(\S+) \[(C\d\d), (own|seeded)\]: (\S+) \((\d+)s\)\s*(.*)$')
pat2 = re.compile(r'^(\S+): patch does not apply')
for arg in sys.argv[1:]:
    phase, path = arg.split(':', 1)
    for line in open(path):
        m = pat.match(line.strip())
        if m:
            name, prop, origin, status, secs, rest = m.groups()
            key = ''
            k = re.search(r'key=(.*)$', rest)
            if k and not rest.startswith('KNOWN'): key = k.group(1)[:110]
            r = res.setdefault(name, {"mutant": name, "checked_with": prop, "origin": origin})
            r[phase] = status
            if status == 'DETECTED' and key: r[phase + '_key'] = key
        m = pat2.match(line.strip())
        if m:
            res.setdefault(m.group(1), {"mutant": m.group(1)})[phase] = 'PATCH-DID-NOT-APPLY'
out = sorted(res.values(), key=lambda r: (r.get('origin', ''), r['mutant']))
json.dump(out, open(os.path.join(ROOT, 'selftest-sensitivity.json'), 'w'), indent=1)
def what(name, origin):
    if origin == 'own':
        idx = {m['name']: m for m in json.load(open(os.path.join(ROOT, 'mutants', 'index.json')))}
        return idx.get(name, {}).get('note', '')
    f = os.path.join(ROOT, 'seeded', name, 'meta.json')
    return json.load(open(f))['change'] if os.path.exists(f) else ''
print('| mutant | what it changes | first run | after strengthening | caught as |')
print('|---|---|---|---|---|')
for r in out:
    b = r.get('before', '-'); a = r.get('after', b if b == 'DETECTED' else '-')
    key = r.get('after_key') or r.get('before_key') or ''
    print(f"| `{r['mutant']}` ({r.get('checked_with','')}) | {what(r['mutant'], r.get('origin','')).replace('|','/')[:150]} | {b.lower()} | {a.lower()} | {key.replace('|','/')} |")
