#!/usr/bin/env python3
"""Merges the logs of `./check selftest sensitivity` runs (selftest-logs/) into
selftest-sensitivity.json, fills seeded/*/meta.json `detected_by`, and rewrites the table between
the SENS-TABLE markers in DESIGN.md."""
import re, sys, json, os
ROOT = os.path.dirname(os.path.dirname(os.path.abspath(__file__)))
L = os.path.join(ROOT, "selftest-logs")
RUNS = [("before", "own-mutants.log"), ("before", "round1-first-run.log"), ("after", "round1-after.log"),
        ("before", "round2-first-run.log"), ("after", "round2-after.log"),
        ("before", "round3-first-run.log"), ("after", "round3-after.log"),
        ("before", "round4-c16c17-first-run.log"), ("before", "round4-c11c19-first-run.log"), ("after", "round4-after.log"),
        ("before", "round5-first-run.log"), ("after", "round5-after.log"), ("before", "round6-first-run.log"),
        ("after", "full-regression-100-mutants.log"),
        ("before", "round7-first-run.log"), ("before", "round8-first-run.log"), ("after", "round8-after.log"),
        # the last run over everything decides the "after" column
        ("after", "full-regression-final.log"),
        # round 9 (after the freeze of round 8): first run, then the changed checks re-run over all their mutants
        ("before", "round9-first-run.log"), ("after", "round9-after.log"),
        ("after", "round9-regression-c11.log"), ("after", "round9-regression-c12.log"),
        ("after", "round9-regression-c16.log"), ("after", "round9-regression-c19.log")]
OVERRIDES = {
 "C12-r8m1": {"before": "HARNESS-ERROR (the change adds a variant to a public enum; an exhaustive match in the simulator no longer compiled)"},
 "C12-r6m2": {"checked_with": "C12", "after": "RETIRED (the code it changes was removed by fix f1bdc17)", "after_key": None},
 "C18-r6m1": {"checked_with": "C18", "after": "RETIRED (made behaviour-preserving by fix f1bdc17; the regression run rightly reports nothing)",
              "after_key": "first run: R1 create/vcf.gz first_chunk=lt_first_block base=ok got=err stage=build_genotype"},
 "C07-r6m2": {"checked_with": "C18 (first run: C07)"},
 "C10-r2m2": {"checked_with": "C10", "origin": "seeded", "before": "PATCH-DID-NOT-APPLY (context changed by fix d8f9cce; re-based)", "after": "DETECTED",
              "after_key": "C10 L2 ploidy error in a selected sample but exit 0"},
 "C16-r9m1": {"before": "HARNESS-ERROR (the harness noticed that re-executing a case gave a different digest - the reader's verdict depended on earlier reads on the same worker thread - and stopped with exit 2)"},
 "C11-r9m2": {"before": "HARNESS-ERROR (the change reshapes a method of the public trait genotype::Reader, which the simulator implements for its record source: the simulator no longer compiled)"},
 "C17-r2m1": {"before": "NOT-EVALUATED (that run stopped at a dependency panic that was not yet listed as a known finding)", "before_key": None},
 "C17-r2m2": {"before": "NOT-EVALUATED (that run stopped at a dependency panic that was not yet listed as a known finding)", "before_key": None},
}
res = {}
pat = re.compile(r'^(\S+) \[(C\d\d), (own|seeded)\]: (\S+) \((\d+)s\)\s*(.*)$')
pat2 = re.compile(r'^(\S+): patch does not apply')
for phase, name in RUNS:
    path = os.path.join(L, name)
    if not os.path.exists(path):
        continue
    for line in open(path):
        m = pat.match(line.strip())
        if m:
            mut, prop, origin, status, secs, rest = m.groups()
            key = ''
            k = re.search(r'key=(.*)$', rest)
            if k and not rest.startswith('KNOWN'):
                key = k.group(1)[:110]
            r = res.setdefault(mut, {"mutant": mut, "checked_with": prop, "origin": origin})
            r[phase] = status
            if status == 'DETECTED' and key:
                r[phase + '_key'] = key
        m = pat2.match(line.strip())
        if m:
            res.setdefault(m.group(1), {"mutant": m.group(1), "origin": "seeded"})[phase] = 'PATCH-DID-NOT-APPLY'
for k, v in OVERRIDES.items():
    if k in res:
        for kk, vv in v.items():
            if vv is None:
                res[k].pop(kk, None)
            else:
                res[k][kk] = vv
out = sorted(res.values(), key=lambda r: (r.get('origin', ''), r['mutant']))
json.dump(out, open(os.path.join(ROOT, 'selftest-sensitivity.json'), 'w'), indent=1)

def what(name, origin):
    if origin == 'own':
        idx = {m['name']: m for m in json.load(open(os.path.join(ROOT, 'mutants', 'index.json')))}
        return idx.get(name, {}).get('note', '')
    f = os.path.join(ROOT, 'seeded', name, 'meta.json')
    return json.load(open(f))['change'] if os.path.exists(f) else ''

lines = ['| mutant (checked with) | what it changes | first run | after strengthening | caught as |', '|---|---|---|---|---|']
for r in out:
    b = r.get('before', '-')
    a = r.get('after', b if b == 'DETECTED' else '-')
    key = r.get('after_key') or r.get('before_key') or ''
    o = r.get('origin', 'seeded')
    lines.append(f"| `{r['mutant']}` ({r.get('checked_with','')}) | {what(r['mutant'], o).replace('|','/')[:170]} | {b.lower()} | {a.lower()} | {key.replace('|','/')} |")
    f = os.path.join(ROOT, 'seeded', r['mutant'], 'meta.json')
    if os.path.exists(f):
        m = json.load(open(f))
        m['detected_by'] = {"check": r.get('checked_with'), "first_run": b, "after_strengthening": a, "violation_key": key}
        json.dump(m, open(f, 'w'), indent=1)
own = [r for r in out if r.get('origin') == 'own']
se = [r for r in out if r.get('origin') != 'own']
first = sum(1 for r in se if r.get('before') == 'DETECTED')
now = sum(1 for r in se if (r.get('after') or r.get('before')) == 'DETECTED')
retired = sum(1 for r in se if str(r.get('after', '')).startswith('RETIRED'))
summary = f"own mutants: {sum(1 for r in own if r.get('before')=='DETECTED')}/{len(own)} detected; seeded mutants: {first}/{len(se)} detected on the first run, {now}/{len(se) - retired} after strengthening ({retired} retired)"
print(summary)
d = os.path.join(ROOT, 'DESIGN.md')
s = open(d).read()
b, e = '<!-- SENS-TABLE-BEGIN -->', '<!-- SENS-TABLE-END -->'
if b in s and e in s:
    s = s[:s.index(b) + len(b)] + "\n_(" + summary + ")_\n\n" + "\n".join(lines) + "\n" + s[s.index(e):]
    open(d, 'w').write(s)
