#!/usr/bin/env python3
"""Regenerates /verif/MANIFEST.json from the table below (kept here so the manifest is
always valid and complete: every property is either claimed or listed not_applicable)."""
import json, subprocess, os
ROOT = os.path.dirname(os.path.dirname(os.path.abspath(__file__)))

NA = {
"C01":"pure function of (records, sample map): per-record index arithmetic; no schedule, fault, crash point or history in the statement (environment/history dependence of create is decided under C12/C18/C11)",
"C02":"pure function of one record and the projection target (hypergeometric weights); needs a second implementation of the arithmetic, not a simulator",
"C03":"in-memory linear operator on an array; no I/O, state, time or concurrency",
"C04":"in-memory array sum; no I/O, state, time or concurrency",
"C05":"in-memory array transformation; no I/O, state, time or concurrency",
"C06":"closed-form functions of a spectrum compared with published formulas; pure",
"C08":"classification of one GT string over a finite alphabet; pure (the all-or-nothing consequence of a ploidy error is exercised as a fault kind under C10)",
"C09":"metamorphic relations of a pure function under permutations of input and list; run-to-run/hash-order independence is decided under C12",
"C13":"algebra of four pure array operations and their order; lossless transport is C07",
"C14":"relations between values of pure functions",
"C15":"byte-layout specification and decoder table; pure (read-back, damage rejection and delivery independence are claimed under C07/C16/C18)",
}
PENDING_REASON = "check under construction (designed in DESIGN.md section 6); not claimed until its check is registered"
ALL = ["C%02d" % i for i in range(1, 20)]

CHECKS = {
"C18": dict(
  category="fault_enumeration",
  text="Seeded simulation of the real readers/writers over simulated transports: for each generated workload the first-chunk length and the byte offset of an injected read/write error are swept exhaustively within the stated bounds (inputs <= 600 B quick / 2 KiB thorough, strided above), later chunks, buffer capacities, thread counts, BGZF layouts and EINTR/short-write/Ok(0) faults are sampled; the same scenarios run against the unmodified binary under a system-call shim. A clean run is evidence over the explored schedules and fault points, not a proof.",
  design_ref="DESIGN.md section 6 / C18",
  note="Trusted: noodles-bcf writer (BCF encoding of generated call sets), the harness BGZF framer (self-consistent with noodles' reader), glibc dynamic linking for the shim. L1 glue replicates Create::run; L2 runs the real binary. UnexpectedEof is never injected as an error kind; after EINTR both retry and error are accepted.",
  technique="deterministic simulation with fault injection: seeded chunk schedules + exhaustive first-chunk and fault-offset sweeps over SimRead/SimWrite (in-process) and an LD_PRELOAD syscall shim (process level)"),
}

def main():
    commits = subprocess.run(["git","-C","/repo","log","--format=%h %s"],capture_output=True,text=True).stdout.splitlines()
    hook_commits = [c.split()[0] for c in commits if c.split(' ',1)[1].startswith("verif hook")]
    checks = []
    for pid in ALL:
        if pid in CHECKS:
            c = CHECKS[pid]
            checks.append({
              "property_id": pid,
              "quick_cmd": f"./check {pid} quick",
              "thorough_cmd": f"./check {pid} thorough",
              "evidence_file": f"/verif/evidence/{pid}.json",
              "replay_cmd_template": "./check replay {path}",
              "engine": "simctl",
              "level_claimed": {"category": c["category"], "text": c["text"], "design_ref": c["design_ref"]},
              "level_note": c["note"],
              "technique": c["technique"],
            })
    na = []
    for pid in ALL:
        if pid in CHECKS: continue
        na.append({"property_id": pid, "reason": NA.get(pid, PENDING_REASON)})
    m = {
      "version": 1,
      "setup_cmd": "./check setup",
      "hooks": {
        "guard": "cargo feature `verif` of sfs-core",
        "enable": "the simulator crate /verif/sim depends on /repo/core with features=[\"verif\"] (hook: genotype::reader::Builder::build_from_bufread); the sfs binary used at process level is built without the feature",
        "baseline_off_cmd": "cd /repo && cargo test --workspace --no-fail-fast --offline",
        "source_commits": hook_commits,
        "add_only": True,
      },
      "engines": [{
        "name": "simctl",
        "path": "/verif/sim",
        "serves_properties": sorted(CHECKS),
        "kind_free_text": "deterministic simulator with fault injection: one seeded PRNG decides workloads, chunk schedules, fault plans; layer L1 links the real sfs-core and the real create Runner over simulated Read/Write/genotype-source seams; layer L2 runs the unmodified sfs binary under an LD_PRELOAD shim that executes a plan for read/write/open/getrandom; violations are minimised, written as replay files and re-executed in a fresh process",
      }],
      "checks": checks,
      "notes": "Technique family: deterministic simulation with fault injection (DESIGN.md). Entry point ./check. Fixed defects and open findings: known_findings.json. VERIF_SEED selects the seed (default 1); VERIF_CASES overrides the number of cases.",
      "not_applicable": na,
    }
    json.dump(m, open(os.path.join(ROOT,"MANIFEST.json"),"w"), indent=1)
    print("claimed:", sorted(CHECKS), "not_applicable:", [x["property_id"] for x in na])

if __name__ == "__main__":
    main()
