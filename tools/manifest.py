#!/usr/bin/env python3
"""Regenerates /verif/MANIFEST.json from the table below (kept here so the manifest is
always valid and complete: every property is either claimed or listed not_applicable)."""
import json, subprocess, os
ROOT = os.path.dirname(os.path.dirname(os.path.abspath(__file__)))

NA = {
"C01":"pure function of (records, sample map): per-record index arithmetic; no schedule, fault, crash point or history in the statement (environment/history dependence of create is decided under C12/C18/C11)",
"C02":"pure function of one record and the projection target (hypergeometric weights); needs a second implementation of the arithmetic, not a simulator",
"C03":"in-memory linear operator on an array; no I/O, state, time or concurrency",
"C04":"in-memory array sum; no I/O, state, time or concurrency",
"C05":"in-memory array transformation; no I/O, state, time or concurrency",
"C06":"closed-form functions of a spectrum compared with published formulas; pure",
"C08":"classification of one GT string over a finite alphabet; pure (the all-or-nothing consequence of a ploidy error is exercised as a fault kind under C10)",
"C09":"metamorphic relations of a pure function under permutations of input and list; run-to-run/hash-order independence is decided under C12",
"C13":"algebra of four pure array operations and their order; lossless transport is C07",
"C14":"relations between values of pure functions",
"C15":"byte-layout specification and decoder table; pure (read-back, damage rejection and delivery independence are claimed under C07/C16/C18)",
}
PENDING_REASON = "check under construction (designed in DESIGN.md section 6); not claimed until its check is registered"
ALL = ["C%02d" % i for i in range(1, 20)]

CHECKS = {
"C17": dict(
  category="exploration",
  text="Seeded invocations of the real binary (dev profile: overflow checks on): the grid statistic(14) x shapes with 1..4 axes of length 1..4, view/fold option combinations on degenerate shapes, option values at and beyond their bounds, valid spectra and call sets with simulated storage corruption (bit flips, truncation, duplicated/deleted ranges, splices, numeric blow-ups), absurd declared shapes composed from boundary axis lengths, typed-value and site-field corruption inside BCF records, 20-64 populations, thousands of axes, 0..8-byte inputs, spectra steered to every npy header alignment boundary, contradictory sample lists and samples files; a quarter of the inputs arrive on shim-chunked stdin. Oracle: exit 0, or non-zero (not 101, no signal) with a diagnostic. Sampling; violations are keyed by panic site.",
  design_ref="DESIGN.md section 6 / C17",
  note="Children run under 30 s CPU / 16 GiB limits that only protect the sandbox; hitting them is inconclusive, never a violation. --threads up to 64 only. Dev-profile binary.",
  technique="deterministic simulation with fault injection at process level: seeded command lines x corrupted storage images x chunked delivery against the unmodified binary; crash-freedom oracle"),
"C12": dict(
  category="exploration",
  text="Two engines. (1) Per generated diploid call set and configuration, ~19 executions that each perturb one dimension (container, explicit BGZF block layout incl. empty blocks (also runs of thousands of them) and 1-byte blocks, headers with and without ##contig lines, BCF minor version, --threads 1..16, transport path / stdin-file / pre-filled pipe, getrandom-derived hash seed, environment and cwd, repetition) are compared with the canonical execution: stdout bytes + exit status of the real binary (L2), spectrum bits in-process (L1, where hash seeds are also a controlled dimension through an in-process getrandom seam). (2) Thread schedules: the real create path runs over multi-block BGZF input with 2..8 threads under shuttle's seeded random / PCT schedulers, which own every interleaving of the reader with the BGZF inflater threads (a vendored copy of the noodles-bgzf worker pool takes its threads and channels from shuttle); every explored schedule must give the single-threaded result, a failing schedule is persisted and replays exactly. Sampling of workloads, variants and schedules.",
  design_ref="DESIGN.md section 6 / C12, section 12",
  note="SFS_ALLOW_STDIN=1 in every run. Diploid call sets with GT in every record only. Chunking held benign (C18's dimension). In engine (1) the BGZF worker interleaving is real OS scheduling (oracle insensitive to it); engine (2) controls it, on a vendored copy of the dependency's worker pool whose only change is the thread/channel runtime (crossbeam multi-consumer receiver modelled as mpsc receiver behind a mutex).",
  technique="deterministic simulation: seeded configurations with simulated getrandom/environment/transport (simctl + LD_PRELOAD shim) and seeded thread-schedule exploration with replayable schedules (shuttle)"),
"C10": dict(
  category="fault_enumeration",
  text="For each generated call set + configuration one fault kind (source I/O error, ploidy error in a selected / unselected sample, strict violation; at process level also malformed VCF lines, truncated BCF records, corrupted BGZF blocks and shim read errors at record boundaries) is placed at every record index of the stream in turn (exhaustive per case for streams <= 40 records, sampled positions above), optionally followed by a second, later fault, at verbosity 0..2, cohorts up to 1,100 samples, at process level by path or on chunked stdin (-v flags / logger level); conservation (mass + skipped = records), strict-mode first-failure and all-or-nothing are judged on every run. Call sets and configurations are sampled.",
  design_ref="DESIGN.md section 6 / C10",
  note="'Would be skipped' is taken from the tool's own non-strict run. For malformed/corrupt records only the all-or-nothing clause is applied. L1 uses a simulated genotype source (stub) under the real site reader and Runner; L2 the real binary.",
  technique="deterministic simulation with fault injection: exhaustive placement of record-stream faults over a simulated genotype source and crafted files; conservation and all-or-nothing oracles"),
"C11": dict(
  category="exploration",
  text="Seeded record histories (2..12 records drawn by kind so that every ordered predecessor/successor pair occurs, one history in forty with up to 1,600 records; with and without projection) with source faults inside the history (error at record i, ploidy error mid-record, Done in the middle, then reading continues); each step of the history is compared bit-exactly with the same record read by a fresh reader (refinement against a history-free reference that is the same code), and spectra of concatenations / permutations are compared at library and process level.",
  design_ref="DESIGN.md section 6 / C11",
  note="The simulated source delivers genotype results directly (classification of GT strings is not judged). Spectrum-level comparisons under projection allow 1e-9 absolute per hundred records (sums formed in a different order). At process level a run may fail because of one record; then the whole must fail iff one of its parts does, and a permutation iff the original order does.",
  technique="deterministic simulation: seeded operation histories with injected source faults, checked by refinement against a history-free reference (fresh reader per record)"),
"C16": dict(
  category="fault_enumeration",
  text="Crash-consistency enumeration: for each generated valid spectrum file (numpy-style npy of every dtype/byte order/version/spelling, npy and text written by sfs) every truncation offset, every extension of 1..16 bytes in five content kinds and every single-token edit (with every kind of ASCII whitespace at the edited place) / shape edit of text is produced and handed to the real readers, which must reject all of them; the real view/fold/stat binaries are run on one damage per class and on prefixes the tool itself leaves when killed mid-write by the shim. Exhaustive per file within the size bound (<= 64 elements quick, <= 480 thorough; larger files, up to 66,000 values, with every extension and sampled truncation offsets); files are sampled.",
  design_ref="DESIGN.md section 6 / C16",
  note="A panic on a damaged file counts as rejection here (panics are C17). The library-level oracle does not depend on the undamaged control being accepted. Every case runs on its own thread, so the reads of a case are a replayable call history and per-thread reader state cannot leak between cases.",
  technique="deterministic simulation with fault injection: exhaustive crash-point (truncation) and stale-tail enumeration on a simulated disk; process-level kill-at-byte-k via LD_PRELOAD shim"),
"C07": dict(
  category="exploration",
  text="Seeded write-then-read-back histories of generated spectra (all value classes incl. NaN/inf/subnormal, 1..6 axes, precision 0..17) through the real writer over a short-writing SimWrite and the real readers over a chunk-scheduled SimRead / scratch files, plus text->npy->text; process-level pipelines producer(create|view|fold) -> {file, pipe} -> consumer(view|fold|stat) with shim-injected short writes and chunked reads. Fault-free configuration by design; sampling, not proof.",
  design_ref="DESIGN.md section 6 / C07",
  note="Tolerance for text is 0.5*10^-p plus representation slack; for non-finite values in text only acceptance and shape are demanded; byte-for-byte text->npy->text only when all printed tokens have <= 15 significant digits.",
  technique="deterministic simulation: seeded storage histories (write, read back) under short-write / chunked-read schedules at library and process level"),
"C19": dict(
  category="exploration",
  text="Every shape of the stated grid (1..5 axes x lengths 1..5, 3,905 shapes) x every axis incl. dims and dims+1 (for get_axis and for iter_axis, whose iterator must then be empty, report length 0 and not panic) x every position incl. len and len+1 is visited; on each, seeded call histories (next/nth/len/size_hint/clone, and fold/count/last on a clone or by value, continued 1..2*len+4 calls past the first None) are run against iter_indices, iter_axis, view iterators and iter_frequencies and compared call by call with a nested-loop row-major reference model; sum(axis) is compared with adding the views; arrays obtained from Array::read_npy (C-order and Fortran-order headers) must be self-consistent when accepted. The grid is exhaustive, the histories are sampled.",
  design_ref="DESIGN.md section 6 / C19",
  note="Weakest fit for the technique: there is no fault or schedule dimension; the simulator contributes call histories, reference model, minimisation and replay. Harness built with overflow checks on.",
  technique="deterministic simulation: seeded operation histories on stateful iterators checked against an executable sequential reference model"),
"C18": dict(
  category="fault_enumeration",
  text="Seeded simulation of the real readers/writers over simulated transports: for each generated workload the first-chunk length and the byte offset of an injected read/write error are swept exhaustively within the stated bounds (inputs <= 600 B quick / 2 KiB thorough, strided above), later chunks, buffer capacities, thread counts, BGZF layouts and EINTR/short-write/Ok(0) faults are sampled; every failed write is followed by a fault-free write of another spectrum on the same thread, which must equal that write on its own; the same scenarios run against the unmodified binary under a system-call shim. A clean run is evidence over the explored schedules and fault points, not a proof.",
  design_ref="DESIGN.md section 6 / C18",
  note="Trusted: noodles-bcf writer (BCF encoding of generated call sets), the harness BGZF framer (self-consistent with noodles' reader), glibc dynamic linking for the shim. L1 glue replicates Create::run; L2 runs the real binary. UnexpectedEof is never injected as an error kind; after EINTR both retry and error are accepted.",
  technique="deterministic simulation with fault injection: seeded chunk schedules + exhaustive first-chunk and fault-offset sweeps over SimRead/SimWrite (in-process) and an LD_PRELOAD syscall shim (process level)"),
}

EXPECTED_CLAIMED = ["C07", "C10", "C11", "C12", "C16", "C17", "C18", "C19"]

def main():
    assert sorted(CHECKS) == EXPECTED_CLAIMED, "claimed set changed unexpectedly: %s" % sorted(CHECKS)
    commits = subprocess.run(["git","-C","/repo","log","--format=%h %s"],capture_output=True,text=True).stdout.splitlines()
    hook_commits = [c.split()[0] for c in commits if c.split(' ',1)[1].startswith("verif hook")]
    checks = []
    for pid in ALL:
        if pid in CHECKS:
            c = CHECKS[pid]
            checks.append({
              "property_id": pid,
              "quick_cmd": f"./check {pid} quick",
              "thorough_cmd": f"./check {pid} thorough",
              "evidence_file": f"/verif/evidence/{pid}.json",
              "replay_cmd_template": "./check replay {path}",
              "engine": "simctl",
              "level_claimed": {"category": c["category"], "text": c["text"], "design_ref": c["design_ref"]},
              "level_note": c["note"],
              "technique": c["technique"],
            })
    na = []
    for pid in ALL:
        if pid in CHECKS: continue
        na.append({"property_id": pid, "reason": NA.get(pid, PENDING_REASON)})
    m = {
      "version": 1,
      "setup_cmd": "./check setup",
      "hooks": {
        "guard": "cargo feature `verif` of sfs-core",
        "enable": "the simulator crate /verif/sim depends on /repo/core with features=[\"verif\"] (hook: genotype::reader::Builder::build_from_bufread); the sfs binary used at process level is built without the feature",
        "baseline_off_cmd": "cd /repo && cargo test --workspace --no-fail-fast --offline",
        "source_commits": hook_commits,
        "add_only": True,
      },
      "engines": [{
        "name": "simsh",
        "path": "/verif/simsh",
        "serves_properties": ["C12"],
        "kind_free_text": "schedule exploration: shuttle's seeded random and PCT schedulers own every interleaving of the BGZF reader thread with its inflater threads (vendored noodles-bgzf worker pool on shuttle primitives, /verif/vendor/noodles-bgzf); failing schedules are persisted to a file and replayed with shuttle::replay_from_file",
      }, {
        "name": "simctl",
        "path": "/verif/sim",
        "serves_properties": sorted(CHECKS),
        "kind_free_text": "deterministic simulator with fault injection: one seeded PRNG decides workloads, chunk schedules, fault plans; layer L1 links the real sfs-core and the real create Runner over simulated Read/Write/genotype-source seams; layer L2 runs the unmodified sfs binary under an LD_PRELOAD shim that executes a plan for read/write/open/getrandom; violations are minimised, written as replay files and re-executed in a fresh process",
      }],
      "checks": checks,
      "notes": "Technique family: deterministic simulation with fault injection (DESIGN.md). Entry point ./check. Fixed defects and open findings: known_findings.json. VERIF_SEED selects the seed (default 1); VERIF_CASES overrides the number of cases.",
      "not_applicable": na,
    }
    json.dump(m, open(os.path.join(ROOT,"MANIFEST.json"),"w"), indent=1)
    print("claimed:", sorted(CHECKS), "not_applicable:", [x["property_id"] for x in na])

if __name__ == "__main__":
    main()
