#!/usr/bin/env bash
# Confirms a sub-agent's mutant myself in its scratch worktree: applies, builds, the full existing
# suite passes, the demonstration fails; reverted, the demonstration passes. Then files it under
# /verif/seeded/<ID>-m<k>/.
# usage: verify_seeded.sh <ID> <k> <kind> <demo>     kind = sh | py | rstest
set -u
ID=$1; K=$2; KIND=$3; DEMO=$4
WT=${WTBASE:-/tmp/mut}-$ID; OUT=$WT/OUT/m$K
export CARGO_TARGET_DIR=$WT/target CARGO_NET_OFFLINE=true SFS_ALLOW_STDIN=1
cd $WT || exit 2
git checkout -q -- . ; rm -f core/tests/*.rs core/examples/*.rs 2>/dev/null
run_demo() {
  case $KIND in
    sh) bash $OUT/$DEMO >/tmp/demo-$ID-$K.log 2>&1 ;;
    py) python3 $OUT/$DEMO >/tmp/demo-$ID-$K.log 2>&1 ;;
    rstest) mkdir -p core/tests; cp $OUT/$DEMO core/tests/; n=${DEMO%.rs}; cargo test --offline -q -p sfs-core --test $n >/tmp/demo-$ID-$K.log 2>&1; rc=$?; rm -f core/tests/$DEMO; return $rc ;;
  esac
}
git apply $OUT/patch.diff || { echo "$ID m$K: PATCH DOES NOT APPLY"; exit 1; }
cargo build --offline -q 2>/dev/null || { echo "$ID m$K: DOES NOT BUILD"; git checkout -q -- .; exit 1; }
suite=$(cargo test --workspace --no-fail-fast --offline 2>&1 | grep -E '^test result' | awk '{p+=$4; f+=$6} END {print p" passed "f" failed"}')
run_demo; rc_mut=$?
git checkout -q -- .
cargo build --offline -q 2>/dev/null
run_demo; rc_orig=$?
echo "$ID m$K: suite with mutant: $suite; demo rc with mutant=$rc_mut, on original=$rc_orig"
if [ "$rc_mut" != 0 ] && [ "$rc_orig" = 0 ] && [[ "$suite" == "90 passed 0 failed" ]]; then
  D=/verif/seeded/$ID-${SUFFIX:-m}$K; mkdir -p $D
  cp -r $OUT/* $D/ ; rm -f $D/*.log
  echo CONFIRMED
else
  echo NOT-CONFIRMED
fi
