#!/usr/bin/env python3
"""Self-tests of the machinery (not registered checks).

  ./check selftest determinism [n]
      For every property: the event-log/outcome digests of the first n cases are computed
      twice with 16 workers and once with 1 worker, in separate processes; all three must agree.

  ./check selftest sensitivity [name-substring ...]
      Every patch in /verif/mutants/*.patch and /verif/seeded/*/patch.diff is applied to a scratch
      worktree of /repo outside /repo and /verif; the quick check of the property it targets must
      exit 1 with a VIOLATION line and a replay file that reproduces in a fresh process; the
      worktree and its build output are removed afterwards. The unpatched tree is expected to exit 0
      (that is what the registered checks show).
"""
import json, os, subprocess, sys, shutil, time, glob

ROOT = os.path.dirname(os.path.abspath(__file__))
PROPS = ["C07", "C10", "C11", "C12", "C16", "C17", "C18", "C19"]
N_DET = {"C07": 2000, "C10": 600, "C11": 2000, "C12": 120, "C16": 300, "C17": 600, "C18": 160, "C19": 400}


def run(cmd, env=None, cwd=ROOT, timeout=None):
    e = dict(os.environ)
    if env:
        e.update(env)
    return subprocess.run(cmd, capture_output=True, text=True, env=e, cwd=cwd, timeout=timeout)


def determinism(args):
    scale = float(args[0]) if args else 1.0
    bad = 0
    total = 0
    for p in PROPS:
        n = max(20, int(N_DET[p] * scale))
        outs = []
        for jobs in (16, 16, 1 if p not in ("C17", "C12", "C18") else 3):
            r = run([os.path.join(ROOT, "check"), "digests", p, str(n), str(jobs)])
            if r.returncode != 0:
                print(f"harness error: digests {p} failed: {r.stderr[-400:]}")
                sys.exit(2)
            outs.append(r.stdout.splitlines())
        diffs = [i for i in range(len(outs[0])) if not (outs[0][i] == outs[1][i] == outs[2][i])]
        total += n
        print(f"{p}: {n} cases x 3 runs (16, 16 and few workers): {len(diffs)} digest mismatches" + (f" e.g. case {diffs[:5]}" if diffs else ""))
        bad += len(diffs)
    print(f"determinism: {total} cases compared, {bad} mismatches")
    sys.exit(0 if bad == 0 else 2)


def collect_mutants(filters):
    muts = []
    idx = os.path.join(ROOT, "mutants", "index.json")
    if os.path.exists(idx):
        for m in json.load(open(idx)):
            muts.append((m["name"], m["property"], os.path.join(ROOT, "mutants", m["name"] + ".patch"), "own"))
    for meta in sorted(glob.glob(os.path.join(ROOT, "seeded", "*", "meta.json"))):
        m = json.load(open(meta))
        d = os.path.dirname(meta)
        if m.get("retired"):
            continue  # the code site it changes no longer exists (see meta.json)
        muts.append((os.path.basename(d), m.get("check_with", m["property"]), os.path.join(d, "patch.diff"), "seeded"))
    if filters:
        muts = [m for m in muts if any(f in m[0] for f in filters)]
    return muts


def sensitivity(args):
    muts = collect_mutants(args)
    wt = f"/tmp/verif-selftest-{os.getpid()}"
    results = []
    for name, prop, patch, origin in muts:
        t0 = time.time()
        subprocess.run(["git", "-C", "/repo", "worktree", "remove", "--force", wt], capture_output=True)
        r = run(["git", "-C", "/repo", "worktree", "add", "--detach", wt, "HEAD"])
        if r.returncode:
            print("harness error: cannot create worktree:", r.stderr)
            sys.exit(2)
        try:
            r = run(["git", "-C", wt, "apply", patch])
            if r.returncode:
                results.append((name, prop, origin, "PATCH-DOES-NOT-APPLY", 0))
                print(f"{name}: patch does not apply: {r.stderr.strip()[:200]}")
                continue
            scratch = os.path.join(wt, ".verif-out")
            os.makedirs(scratch, exist_ok=True)
            env = {"VERIF_REPO_ROOT": wt, "VERIF_EVIDENCE_DIR": scratch, "VERIF_REPLAY_DIR": scratch}
            r = run([os.path.join(ROOT, "check"), prop, "quick"], env=env)
            viol = [l for l in r.stdout.splitlines() if l.startswith("VIOLATION")]
            status = "MISSED"
            if r.returncode == 1 and viol:
                # the replay must reproduce in a fresh process
                path = viol[0].split("replay=")[1].strip()
                rr = run([os.path.join(ROOT, "check"), "replay", path], env=env)
                status = "DETECTED" if "REPRODUCED" in rr.stdout and "NOT-REPRODUCED" not in rr.stdout else "DETECTED-BUT-REPLAY-FAILED"
            elif r.returncode == 2:
                status = "HARNESS-ERROR"
            keys = [l.strip() for l in r.stdout.splitlines() if "key=" in l and not l.startswith("KNOWN-FINDING")][:2]
            results.append((name, prop, origin, status, time.time() - t0))
            print(f"{name} [{prop}, {origin}]: {status} ({time.time()-t0:.0f}s) {keys[0] if keys else ''}", flush=True)
            if status == "HARNESS-ERROR":
                print(r.stderr[-600:])
        finally:
            subprocess.run(["git", "-C", "/repo", "worktree", "remove", "--force", wt], capture_output=True)
            shutil.rmtree(wt, ignore_errors=True)
            tag = subprocess.run(["bash", "-c", f"printf '%s' '{wt}' | md5sum | cut -c1-10"], capture_output=True, text=True).stdout.strip()
            for d in (f"sim-{tag}", f"target-{tag}", f"target-sfs-{tag}"):
                shutil.rmtree(os.path.join(ROOT, "build", d), ignore_errors=True)
            for f in glob.glob(os.path.join(ROOT, "build", "bin", f"*-{tag}")):
                os.remove(f)
    det = sum(1 for r in results if r[3] == "DETECTED")
    print(f"sensitivity: {det}/{len(results)} mutants detected with a reproducing replay")
    out = os.path.join(ROOT, "selftest-sensitivity.json")
    json.dump([{"mutant": n, "property": p, "origin": o, "result": s, "seconds": round(t, 1)} for n, p, o, s, t in results], open(out, "w"), indent=1)
    sys.exit(0 if det == len(results) else 1)


def shuttle(args):
    """Sensitivity of the thread-schedule engine: a schedule-dependent bug seeded into the vendored
    BGZF worker pool (blocks taken in completion order) must be found, and the persisted schedule
    must replay."""
    tmp = f"/tmp/verif-selftest-shuttle-{os.getpid()}"
    shutil.rmtree(tmp, ignore_errors=True)
    os.makedirs(tmp)
    try:
        shutil.copytree(os.path.join(ROOT, "simsh"), os.path.join(tmp, "simsh"))
        shutil.copytree(os.path.join(ROOT, "vendor"), os.path.join(tmp, "vendor"))
        shutil.copytree(os.path.join(ROOT, "sim", "src"), os.path.join(tmp, "sim", "src"))
        r = run(["git", "apply", "--directory", tmp.lstrip("/"), os.path.join(ROOT, "mutants", "vendor_bgzf_blocks_out_of_order.patch")], cwd="/")
        if r.returncode:
            r = run(["patch", "-p1", "-d", tmp, "-i", os.path.join(ROOT, "mutants", "vendor_bgzf_blocks_out_of_order.patch")])
        if r.returncode:
            print("harness error: vendor patch does not apply:", r.stderr[-300:])
            sys.exit(2)
        env = {"CARGO_TARGET_DIR": os.path.join(tmp, "target"), "CARGO_NET_OFFLINE": "true"}
        b = run(["cargo", "build", "--release", "--offline", "-q"], env=env, cwd=os.path.join(tmp, "simsh"))
        if b.returncode:
            print("harness error: build failed:", b.stderr[-600:])
            sys.exit(2)
        out = os.path.join(tmp, "out")
        os.makedirs(out)
        env2 = {"VERIF_EVIDENCE_DIR": out, "VERIF_REPLAY_DIR": out, "VERIF_SHUTTLE_CASES": "64"}
        exe = os.path.join(tmp, "target", "release", "simsh")
        r = run([exe, "check", "quick"], env=env2)
        viol = [l for l in r.stdout.splitlines() if l.startswith("VIOLATION")]
        ok = r.returncode == 1 and bool(viol)
        rep = False
        if ok:
            path = viol[0].split("replay=")[1].strip()
            outs = [run([exe, "replay", path], env=env2).stdout.splitlines()[:2] for _ in range(3)]
            rep = all(o and o[0].startswith("REPRODUCED") for o in outs) and outs[0] == outs[1] == outs[2]
        print(f"vendor_bgzf_blocks_out_of_order [C12, shuttle engine]: {'DETECTED' if ok and rep else 'MISSED' if not ok else 'DETECTED-BUT-REPLAY-FAILED'}; {len(viol)} failing workloads reported; replay reproduced identically 3 times: {rep}")
        sys.exit(0 if ok and rep else 1)
    finally:
        shutil.rmtree(tmp, ignore_errors=True)


if __name__ == "__main__":
    mode = sys.argv[1] if len(sys.argv) > 1 else "determinism"
    if mode == "determinism":
        determinism(sys.argv[2:])
    elif mode == "sensitivity":
        sensitivity(sys.argv[2:])
    elif mode == "shuttle":
        shuttle(sys.argv[2:])
    else:
        print(__doc__)
        sys.exit(2)
