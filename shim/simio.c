/*
 * simio — LD_PRELOAD shim that puts the results of a few system calls of the *unmodified*
 * `sfs` binary under the control of a plan file written by the simulator (layer L2).
 *
 * Interposed: read, write, writev, open, open64, openat, openat64, getrandom.
 * Everything it does is a deterministic function of the plan file; it draws no randomness
 * and reads no clock.  Every intercepted call on a governed fd is appended to the event log.
 *
 * Plan file (path in $SIMIO_PLAN), one directive per line:
 *   in  stdin | path:<abs>        which fd is governed for reads
 *   out stdout | path:<abs>       which fd is governed for writes
 *   rd.chunks 5,1,1,7,*64         read() returns at most these many bytes, then 64 forever
 *   rd.fail 300 5                 the read starting at offset 300 fails once with errno 5
 *                                 (reads crossing the offset are cut there)
 *   rd.eintr 3,4                  governed read calls 3 and 4 (0-based) fail with EINTR
 *   wr.chunks 3,*1                short writes
 *   wr.fail 327 28                the write starting at offset 327 fails once with errno 28
 *   wr.kill 100                   _exit(137) once 100 bytes were written (crash point)
 *   wr.eintr 0,2
 *   hashseed 123456               getrandom() output is a function of this number
 *   log <path>                    event log
 */
#define _GNU_SOURCE
#include <errno.h>
#include <fcntl.h>
#include <stdarg.h>
#include <stdint.h>
#include <stdio.h>
#include <stdlib.h>
#include <string.h>
#include <sys/syscall.h>
#include <sys/types.h>
#include <sys/uio.h>
#include <unistd.h>

#define MAXCH 4096

struct stream {
    int fd;              /* governed fd, -1 = none yet */
    char path[1024];     /* path target ("" = none) */
    long chunks[MAXCH];
    int nchunks;
    long rest;           /* 0 = unlimited */
    long fail_off[4];
    int fail_errno[4];
    int fail_done[4];
    int nfail;
    long eintr[64];
    int neintr;
    long kill_at;        /* -1 = none */
    long off;            /* bytes moved so far */
    long calls;          /* all governed calls */
    long data_calls;     /* calls that moved data */
};

static struct stream rd = {.fd = -1, .kill_at = -1}, wr = {.fd = -1, .kill_at = -1};
static int have_hashseed = 0;
static uint64_t hashseed = 0, hash_ctr = 0;
static int log_fd = -1;
static int inited = 0;

static ssize_t raw_write(int fd, const void *b, size_t n) { return syscall(SYS_write, fd, b, n); }
static ssize_t raw_read(int fd, void *b, size_t n) { return syscall(SYS_read, fd, b, n); }

static void logev(const char *op, long call, long off, long req, long ret, int err) {
    if (log_fd < 0) return;
    char buf[160];
    int n = snprintf(buf, sizeof buf, "%s %ld %ld %ld %ld %d\n", op, call, off, req, ret, err);
    if (n > 0) raw_write(log_fd, buf, (size_t)n);
}

static void parse_list(const char *s, long *out, int *n, int max, long *rest) {
    *n = 0;
    while (*s) {
        while (*s == ' ' || *s == ',') s++;
        if (!*s || *s == '\n') break;
        if (*s == '*') {
            s++;
            if (rest) *rest = strtol(s, (char **)&s, 10);
            continue;
        }
        long v = strtol(s, (char **)&s, 10);
        if (*n < max) out[(*n)++] = v;
    }
}

static void init(void) {
    if (inited) return;
    inited = 1;
    const char *p = getenv("SIMIO_PLAN");
    if (!p) return;
    int fd = (int)syscall(SYS_openat, AT_FDCWD, p, O_RDONLY | O_CLOEXEC, 0);
    if (fd < 0) return;
    static char buf[1 << 16];
    ssize_t len = 0, r;
    while ((r = raw_read(fd, buf + len, sizeof buf - 1 - (size_t)len)) > 0) len += r;
    syscall(SYS_close, fd);
    buf[len] = 0;
    char *save = NULL;
    for (char *line = strtok_r(buf, "\n", &save); line; line = strtok_r(NULL, "\n", &save)) {
        if (!strncmp(line, "in ", 3)) {
            if (!strcmp(line + 3, "stdin")) rd.fd = 0;
            else if (!strncmp(line + 3, "path:", 5)) strncpy(rd.path, line + 8, sizeof rd.path - 1);
        } else if (!strncmp(line, "out ", 4)) {
            if (!strcmp(line + 4, "stdout")) wr.fd = 1;
            else if (!strncmp(line + 4, "path:", 5)) strncpy(wr.path, line + 9, sizeof wr.path - 1);
        } else if (!strncmp(line, "rd.chunks ", 10)) {
            parse_list(line + 10, rd.chunks, &rd.nchunks, MAXCH, &rd.rest);
        } else if (!strncmp(line, "wr.chunks ", 10)) {
            parse_list(line + 10, wr.chunks, &wr.nchunks, MAXCH, &wr.rest);
        } else if (!strncmp(line, "rd.fail ", 8)) {
            if (rd.nfail < 4) { sscanf(line + 8, "%ld %d", &rd.fail_off[rd.nfail], &rd.fail_errno[rd.nfail]); rd.nfail++; }
        } else if (!strncmp(line, "wr.fail ", 8)) {
            if (wr.nfail < 4) { sscanf(line + 8, "%ld %d", &wr.fail_off[wr.nfail], &wr.fail_errno[wr.nfail]); wr.nfail++; }
        } else if (!strncmp(line, "rd.eintr ", 9)) {
            parse_list(line + 9, rd.eintr, &rd.neintr, 64, NULL);
        } else if (!strncmp(line, "wr.eintr ", 9)) {
            parse_list(line + 9, wr.eintr, &wr.neintr, 64, NULL);
        } else if (!strncmp(line, "wr.kill ", 8)) {
            wr.kill_at = strtol(line + 8, NULL, 10);
        } else if (!strncmp(line, "hashseed ", 9)) {
            hashseed = strtoull(line + 9, NULL, 10);
            have_hashseed = 1;
        } else if (!strncmp(line, "log ", 4)) {
            log_fd = (int)syscall(SYS_openat, AT_FDCWD, line + 4, O_WRONLY | O_CREAT | O_APPEND | O_CLOEXEC, 0644);
        }
    }
}

static long chunk_limit(struct stream *s) {
    if (s->data_calls < s->nchunks) return s->chunks[s->data_calls] > 0 ? s->chunks[s->data_calls] : 1;
    return s->rest > 0 ? s->rest : -1;
}

/* returns 1 and sets errno if this call must fail */
static int must_fail(struct stream *s, const char *op, size_t req) {
    long call = s->calls;
    for (int i = 0; i < s->neintr; i++)
        if (s->eintr[i] == call) {
            s->calls++;
            logev(op, call, s->off, (long)req, -1, EINTR);
            errno = EINTR;
            return 1;
        }
    for (int i = 0; i < s->nfail; i++)
        if (!s->fail_done[i] && s->fail_off[i] == s->off) {
            s->fail_done[i] = 1;
            s->calls++;
            logev(op, call, s->off, (long)req, -1, s->fail_errno[i]);
            errno = s->fail_errno[i];
            return 1;
        }
    return 0;
}

static size_t cut(struct stream *s, size_t n) {
    long lim = chunk_limit(s);
    if (lim > 0 && (size_t)lim < n) n = (size_t)lim;
    for (int i = 0; i < s->nfail; i++)
        if (!s->fail_done[i] && s->fail_off[i] > s->off && (size_t)(s->fail_off[i] - s->off) < n)
            n = (size_t)(s->fail_off[i] - s->off);
    return n;
}

ssize_t read(int fd, void *buf, size_t count) {
    init();
    if (fd != rd.fd || rd.fd < 0) return raw_read(fd, buf, count);
    if (count == 0) return raw_read(fd, buf, 0);
    if (must_fail(&rd, "r", count)) return -1;
    size_t want = cut(&rd, count);
    /* deliver exactly min(want, remaining): loop over the real source so that what a
       governed read returns never depends on pipe timing */
    size_t got = 0;
    while (got < want) {
        ssize_t r = raw_read(fd, (char *)buf + got, want - got);
        if (r < 0) {
            if (errno == EINTR) continue;
            if (got > 0) break;
            logev("r", rd.calls, rd.off, (long)count, -1, errno);
            rd.calls++;
            return -1;
        }
        if (r == 0) break;
        got += (size_t)r;
    }
    logev("r", rd.calls, rd.off, (long)count, (long)got, 0);
    rd.calls++;
    if (got > 0) rd.data_calls++;
    rd.off += (long)got;
    return (ssize_t)got;
}

static ssize_t governed_write(int fd, const void *buf, size_t count) {
    if (count == 0) return raw_write(fd, buf, 0);
    if (must_fail(&wr, "w", count)) return -1;
    size_t want = cut(&wr, count);
    if (wr.kill_at >= 0 && wr.off + (long)want >= wr.kill_at) {
        size_t part = (size_t)(wr.kill_at - wr.off);
        size_t done = 0;
        while (done < part) {
            ssize_t r = raw_write(fd, (const char *)buf + done, part - done);
            if (r <= 0) break;
            done += (size_t)r;
        }
        logev("k", wr.calls, wr.off, (long)count, (long)done, 0);
        _exit(137);
    }
    size_t done = 0;
    while (done < want) {
        ssize_t r = raw_write(fd, (const char *)buf + done, want - done);
        if (r < 0) {
            if (errno == EINTR) continue;
            if (done > 0) break;
            logev("w", wr.calls, wr.off, (long)count, -1, errno);
            wr.calls++;
            return -1;
        }
        done += (size_t)r;
    }
    logev("w", wr.calls, wr.off, (long)count, (long)done, 0);
    wr.calls++;
    wr.data_calls++;
    wr.off += (long)done;
    return (ssize_t)done;
}

ssize_t write(int fd, const void *buf, size_t count) {
    init();
    if (fd != wr.fd || wr.fd < 0) return raw_write(fd, buf, count);
    return governed_write(fd, buf, count);
}

ssize_t writev(int fd, const struct iovec *iov, int iovcnt) {
    init();
    if (fd != wr.fd || wr.fd < 0) return syscall(SYS_writev, fd, iov, iovcnt);
    /* a short writev is legal: serve the first non-empty buffer only */
    for (int i = 0; i < iovcnt; i++)
        if (iov[i].iov_len > 0) return governed_write(fd, iov[i].iov_base, iov[i].iov_len);
    return 0;
}

static void note_open(const char *path, int fd) {
    if (fd < 0 || !path) return;
    if (rd.path[0] && !strcmp(path, rd.path)) rd.fd = fd;
    if (wr.path[0] && !strcmp(path, wr.path)) wr.fd = fd;
}

int open(const char *path, int flags, ...) {
    init();
    mode_t mode = 0;
    if (flags & (O_CREAT | O_TMPFILE)) { va_list ap; va_start(ap, flags); mode = va_arg(ap, mode_t); va_end(ap); }
    int fd = (int)syscall(SYS_openat, AT_FDCWD, path, flags, mode);
    note_open(path, fd);
    return fd;
}

int open64(const char *path, int flags, ...) {
    init();
    mode_t mode = 0;
    if (flags & (O_CREAT | O_TMPFILE)) { va_list ap; va_start(ap, flags); mode = va_arg(ap, mode_t); va_end(ap); }
    int fd = (int)syscall(SYS_openat, AT_FDCWD, path, flags | O_LARGEFILE, mode);
    note_open(path, fd);
    return fd;
}

int openat(int dirfd, const char *path, int flags, ...) {
    init();
    mode_t mode = 0;
    if (flags & (O_CREAT | O_TMPFILE)) { va_list ap; va_start(ap, flags); mode = va_arg(ap, mode_t); va_end(ap); }
    int fd = (int)syscall(SYS_openat, dirfd, path, flags, mode);
    note_open(path, fd);
    return fd;
}

int openat64(int dirfd, const char *path, int flags, ...) {
    init();
    mode_t mode = 0;
    if (flags & (O_CREAT | O_TMPFILE)) { va_list ap; va_start(ap, flags); mode = va_arg(ap, mode_t); va_end(ap); }
    int fd = (int)syscall(SYS_openat, dirfd, path, flags | O_LARGEFILE, mode);
    note_open(path, fd);
    return fd;
}

int close(int fd) {
    init();
    if (fd >= 0 && fd == rd.fd && rd.path[0]) rd.fd = -1;
    if (fd >= 0 && fd == wr.fd && wr.path[0]) wr.fd = -1;
    return (int)syscall(SYS_close, fd);
}

static uint64_t sm64(uint64_t *st) {
    uint64_t z = (*st += 0x9e3779b97f4a7c15ULL);
    z = (z ^ (z >> 30)) * 0xbf58476d1ce4e5b9ULL;
    z = (z ^ (z >> 27)) * 0x94d049bb133111ebULL;
    return z ^ (z >> 31);
}

ssize_t getrandom(void *buf, size_t buflen, unsigned int flags) {
    init();
    if (!have_hashseed) return syscall(SYS_getrandom, buf, buflen, flags);
    uint64_t st = hashseed ^ (hash_ctr++ * 0x2545f4914f6cdd1dULL);
    unsigned char *p = buf;
    for (size_t i = 0; i < buflen; i += 8) {
        uint64_t v = sm64(&st);
        size_t n = buflen - i < 8 ? buflen - i : 8;
        memcpy(p + i, &v, n);
    }
    logev("g", (long)hash_ctr - 1, 0, (long)buflen, (long)buflen, 0);
    return (ssize_t)buflen;
}
