#![allow(dead_code)]
//! simsh — schedule exploration for C12: `sfs create` over multi-block BGZF input with
//! `--threads k` runs under shuttle's seeded scheduler, which owns every interleaving of the
//! reading thread with the BGZF inflater threads (the vendored noodles-bgzf worker pool takes
//! its threads and channels from shuttle, see /verif/vendor/noodles-bgzf).  For every explored
//! schedule the result must equal the single-threaded result.  A failing schedule is persisted
//! by shuttle and replayed exactly with `simsh replay <file>`.
//!
//!   simsh check quick|thorough        (appends its coverage to evidence/C12.json)
//!   simsh replay <case.json>

#[path = "../../sim/src/gen.rs"]
mod gen;
#[path = "../../sim/src/l1.rs"]
mod l1;
#[path = "../../sim/src/rng.rs"]
mod rng;

use std::{
    io::{BufReader, Cursor},
    path::PathBuf,
    sync::{
        atomic::{AtomicU64, Ordering},
        Arc,
    },
    time::Instant,
};

use serde::{Deserialize, Serialize};
use serde_json::json;

use gen::{CallSet, CallSetParams, Config, Container, Layout};
use l1::Res;
use rng::{mix, stream_of, Rng};

#[derive(Clone, Serialize, Deserialize)]
struct Case {
    callset: CallSet,
    cfg: Config,
    container: Container,
    layout: Layout,
    threads: usize,
    scheduler: String, // random | pct
    sched_seed: u64,
    iterations: usize,
    #[serde(default)]
    schedule_file: Option<String>,
}

fn verif_root() -> PathBuf {
    std::env::var("VERIF_ROOT").map(PathBuf::from).unwrap_or_else(|_| PathBuf::from("/verif"))
}

fn gen_case(seed: u64, idx: u64, thorough: bool) -> Case {
    let mut rng = Rng::new(mix(seed, stream_of("C12.shuttle"), idx));
    let mut p = CallSetParams::standard(6, if thorough { 40 } else { 16 });
    p.allow_strict = true;
    let (callset, cfg) = gen::gen_callset(&mut rng, &p);
    let mut container = *rng.pick(&[Container::VcfGz, Container::Bcf]);
    let vcf = callset.to_vcf();
    // call sets the BCF writer cannot encode (symbolic contig names) are explored as BGZF VCF
    let payload = if container == Container::Bcf {
        match gen::vcf_to_bcf(&vcf) {
            Ok(raw) => raw,
            Err(_) => {
                container = Container::VcfGz;
                vcf
            }
        }
    } else {
        vcf
    };
    // layouts with several blocks so that there is something to interleave
    let mut layout = gen::gen_layout(&mut rng, &payload, container == Container::VcfGz, 24);
    if layout.blocks.len() < 3 {
        let n = payload.len().max(4);
        layout.blocks = vec![n / 4, n / 4, n / 4];
    }
    Case {
        callset,
        cfg,
        container,
        layout,
        threads: *rng.pick(&[2usize, 2, 3, 4, 8]),
        scheduler: if rng.chance(1, 3) { "pct".into() } else { "random".into() },
        sched_seed: rng.next_u64() >> 1,
        iterations: if thorough { 400 } else { 120 },
        schedule_file: None,
    }
}

fn encode(case: &Case) -> Option<Vec<u8>> {
    gen::encode(&case.callset.to_vcf(), case.container, &case.layout).ok().map(|x| x.0)
}

fn run_create(bytes: Vec<u8>, cfg: &Config, threads: usize) -> Res<(Vec<usize>, Vec<u64>)> {
    l1::create_from_bufread(BufReader::with_capacity(8192, Cursor::new(bytes)), cfg, threads).result
}

fn same(a: &Res<(Vec<usize>, Vec<u64>)>, b: &Res<(Vec<usize>, Vec<u64>)>) -> bool {
    match (a, b) {
        (Res::Ok(x), Res::Ok(y)) => x == y,
        (Res::Err(_), Res::Err(_)) => true,
        _ => false,
    }
}

struct Explored {
    /// the workload ran without a single scheduling point (e.g. the code under test chose not to use
    /// its worker pool): there is nothing to interleave, the one execution was compared as usual
    no_concurrency: bool,
    schedules: u64,
    steps: u64,
    failed: Option<String>,
    schedule_file: Option<String>,
}

/// Runs the case under shuttle; returns the number of schedules executed and a failure, if any.
fn explore(case: &Case, persist_dir: &std::path::Path, replay: Option<&str>) -> Explored {
    let Some(bytes) = encode(case) else {
        return Explored {
            no_concurrency: false,
            schedules: 0,
            steps: 0,
            failed: None,
            schedule_file: None,
        };
    };
    // reference: the single-threaded reader (no worker pool, no scheduling)
    let expected = run_create(bytes.clone(), &case.cfg, 1);
    let count = Arc::new(AtomicU64::new(0));
    let count2 = count.clone();
    let cfg = case.cfg.clone();
    let threads = case.threads;
    let body = move || {
        count2.fetch_add(1, Ordering::Relaxed);
        let got = run_create(bytes.clone(), &cfg, threads);
        if !same(&expected, &got) {
            panic!(
                "C12 schedule dependence: --threads {threads} gives {} ({}) but the single-threaded reader gives {}",
                got.class(),
                match &got {
                    Res::Err(e) | Res::Panic(e) => e.clone(),
                    Res::Ok((s, _)) => format!("shape {s:?}, different values"),
                },
                expected.class()
            );
        }
    };
    let _ = std::fs::create_dir_all(persist_dir);
    let before: std::collections::HashSet<PathBuf> = std::fs::read_dir(persist_dir)
        .map(|rd| rd.flatten().map(|e| e.path()).collect())
        .unwrap_or_default();
    let result = std::panic::catch_unwind(std::panic::AssertUnwindSafe(|| {
        if let Some(file) = replay {
            shuttle::replay_from_file(body, file);
        } else {
            let mut config = shuttle::Config::new();
            config.failure_persistence = shuttle::FailurePersistence::File(Some(persist_dir.to_path_buf()));
            config.max_steps = shuttle::MaxSteps::FailAfter(2_000_000);
            // shuttle runs every task on a coroutine stack of 60 KiB by default; the whole create path
            // (parser, inflate) runs on these, and a code change that moves work between the worker
            // pool and the calling task must not overflow one (seen as a segfault of the harness with
            // a behaviour-preserving refactoring that inflates small inputs on the calling thread)
            config.stack_size = 8 << 20;
            if case.scheduler == "pct" {
                let s = shuttle::scheduler::PctScheduler::new_from_seed(case.sched_seed, 3, case.iterations);
                shuttle::Runner::new(s, config).run(body);
            } else {
                let s = shuttle::scheduler::RandomScheduler::new_from_seed(case.sched_seed, case.iterations);
                shuttle::Runner::new(s, config).run(body);
            }
        }
    }));
    let schedules = count.load(Ordering::Relaxed);
    match result {
        Ok(()) => Explored {
            no_concurrency: false,
            schedules,
            steps: 0,
            failed: None,
            schedule_file: None,
        },
        Err(e) => {
            let msg = if let Some(s) = e.downcast_ref::<String>() {
                s.clone()
            } else if let Some(s) = e.downcast_ref::<&str>() {
                s.to_string()
            } else {
                "panic under shuttle".to_string()
            };
            if msg.contains("did not exercise any concurrency") {
                // shuttle's own complaint, not a result mismatch (that would have panicked first)
                return Explored {
                    no_concurrency: true,
                    schedules,
                    steps: 0,
                    failed: None,
                    schedule_file: None,
                };
            }
            let after: Vec<PathBuf> = std::fs::read_dir(persist_dir)
                .map(|rd| rd.flatten().map(|e| e.path()).filter(|p| !before.contains(p)).collect())
                .unwrap_or_default();
            Explored {
                no_concurrency: false,
                schedules,
                steps: 0,
                failed: Some(msg),
                schedule_file: after.first().map(|p| p.display().to_string()),
            }
        }
    }
}

fn shrink(case: &Case) -> Vec<Case> {
    let mut v = vec![];
    let n = case.callset.recs.len();
    if n > 1 {
        let mut c = case.clone();
        c.callset.recs.truncate(n / 2);
        v.push(c);
    }
    if case.threads > 2 {
        let mut c = case.clone();
        c.threads = 2;
        v.push(c);
    }
    if case.layout.blocks.len() > 3 {
        let mut c = case.clone();
        let k = c.layout.blocks.len() / 2;
        c.layout.blocks.truncate(k);
        v.push(c);
    }
    v
}

fn main() {
    l1::init();
    let args: Vec<String> = std::env::args().collect();
    let root = verif_root();
    let replay_dir = std::env::var("VERIF_REPLAY_DIR").map(PathBuf::from).unwrap_or_else(|_| root.join("replays"));
    match args.get(1).map(|s| s.as_str()) {
        Some("replay") => {
            let text = std::fs::read_to_string(&args[2]).expect("replay file");
            let v: serde_json::Value = serde_json::from_str(&text).expect("json");
            let case: Case = serde_json::from_value(v["case"].clone()).expect("case");
            // The schedulers are seeded: the same (workload, scheduler, seed, iterations) walks through
            // the same schedules and fails at the same one. Where shuttle also persisted the failing
            // schedule to a file, that single schedule is replayed instead.
            let file = case.schedule_file.clone().filter(|f| std::path::Path::new(f).exists());
            let ex = explore(&case, &replay_dir.join("replay-schedules"), file.as_deref());
            match ex.failed {
                Some(m) => {
                    println!(
                        "REPRODUCED property=C12 clause=thread_schedule_dependence via={}",
                        file.as_deref().unwrap_or("seeded re-exploration (scheduler seed in the case)")
                    );
                    println!("  detail={}", m.lines().next().unwrap_or(""));
                    std::process::exit(1);
                }
                None => {
                    println!("NOT-REPRODUCED property=C12 clause=thread_schedule_dependence");
                    std::process::exit(0);
                }
            }
        }
        Some("check") => {
            let thorough = args.get(2).map(|s| s == "thorough").unwrap_or(false);
            let seed: u64 = std::env::var("VERIF_SEED").ok().and_then(|s| s.parse().ok()).unwrap_or(1);
            let n: u64 = std::env::var("VERIF_SHUTTLE_CASES")
                .ok()
                .and_then(|s| s.parse().ok())
                .unwrap_or(if thorough { 8000 } else { 800 });
            let jobs = 16usize;
            let t0 = Instant::now();
            // shuttle installs its panic hook once per process with the first configuration, so
            // one directory receives all persisted schedules; failing cases are re-run one at a
            // time afterwards (same scheduler seed => same failure) to attribute the file
            let sched_dir = replay_dir.join("C12-shuttle-schedules");
            let sched_dir = &sched_dir;
            let next = AtomicU64::new(0);
            let results = std::sync::Mutex::new(Vec::new());
            std::thread::scope(|s| {
                for _ in 0..jobs {
                    s.spawn(|| loop {
                        let idx = next.fetch_add(1, Ordering::Relaxed);
                        if idx >= n {
                            break;
                        }
                        let case = gen_case(seed, idx, thorough);
                        let ex = explore(&case, &sched_dir, None);
                        results.lock().unwrap().push((idx, case, ex));
                    });
                }
            });
            let mut results = results.into_inner().unwrap();
            results.sort_by_key(|r| r.0);
            let schedules: u64 = results.iter().map(|r| r.2.schedules).sum();
            let no_conc = results.iter().filter(|r| r.2.no_concurrency).count();
            let mut violations = 0;
            let mut replays = vec![];
            for (idx, case, ex) in &results {
                if let Some(msg) = &ex.failed {
                    violations += 1;
                    if violations > 5 {
                        continue;
                    }
                    // sequential re-run: exactly one new schedule file appears
                    let again = explore(case, sched_dir, None);
                    let msg = again.failed.as_ref().unwrap_or(msg);
                    // minimise the workload under the same scheduler seed; keep a step only if
                    // some schedule still fails
                    let mut cur = case.clone();
                    let mut cur_msg = msg.clone();
                    let mut cur_ex_file = again.schedule_file.clone();
                    let mut progress = true;
                    let mut execs = 0;
                    while progress && execs < 40 {
                        progress = false;
                        for cand in shrink(&cur) {
                            execs += 1;
                            let e2 = explore(&cand, sched_dir, None);
                            if let Some(m) = &e2.failed {
                                cur_msg = m.clone();
                                cur = cand;
                                cur_ex_file = e2.schedule_file;
                                progress = true;
                                break;
                            }
                        }
                    }
                    cur.schedule_file = cur_ex_file;
                    let path = replay_dir.join(format!("C12-shuttle-{seed}-{idx}.json"));
                    let rf = json!({"property":"C12","engine":"simsh","verif_seed":seed,"case_index":idx,
                        "clause":"thread_schedule_dependence","detail":cur_msg,"case":cur});
                    let _ = std::fs::write(&path, serde_json::to_string_pretty(&rf).unwrap());
                    println!("VIOLATION property=C12 replay={}", path.display());
                    println!("  clause=thread_schedule_dependence detail={}", cur_msg.lines().next().unwrap_or(""));
                    replays.push(path.display().to_string());
                }
            }
            let wall = t0.elapsed().as_secs_f64();
            println!(
                "property=C12 engine=shuttle cases={n} schedules_explored={schedules} workloads_without_concurrency={no_conc} wall_s={wall:.1} new_violations={violations}"
            );
            // merge into evidence/C12.json (written just before by simctl)
            let ev_dir = std::env::var("VERIF_EVIDENCE_DIR").map(PathBuf::from).unwrap_or_else(|_| root.join("evidence"));
            let ev_path = ev_dir.join("C12.json");
            if let Ok(text) = std::fs::read_to_string(&ev_path) {
                if let Ok(mut v) = serde_json::from_str::<serde_json::Value>(&text) {
                    let sample = results.first().map(|(_, c, _)| {
                        json!({"container": c.container.name(), "bgzf_blocks": c.layout.blocks.len(), "threads": c.threads,
                               "scheduler": c.scheduler, "scheduler_seed": c.sched_seed, "iterations": c.iterations, "records": c.callset.recs.len()})
                    });
                    v["coverage"]["thread_schedule_exploration"] = json!({
                        "engine": "shuttle 0.9 (RandomScheduler and PctScheduler depth 3, seeded)",
                        "what_runs": "real sfs-core create path + real Runner over BGZF bytes with --threads 2..8; the noodles-bgzf worker pool is the vendored copy whose threads and channels are shuttle's",
                        "workloads": n,
                        "schedules_explored": schedules,
                        "workloads_without_any_scheduling_point": no_conc,
                        "oracle": "result under every explored interleaving == result of the single-threaded reader",
                        "violations": violations,
                        "wall_s": wall,
                        "sample": sample,
                    });
                    if let Some(x) = v["violations"].as_i64() {
                        v["violations"] = json!(x + violations as i64);
                    }
                    if let Some(x) = v["coverage"]["evaluations"].as_u64() {
                        v["coverage"]["evaluations"] = json!(x + schedules);
                    }
                    let _ = std::fs::write(&ev_path, serde_json::to_string_pretty(&v).unwrap());
                }
            }
            std::process::exit(if violations > 0 { 1 } else { 0 });
        }
        _ => {
            eprintln!("usage: simsh check quick|thorough | replay <file>");
            std::process::exit(2);
        }
    }
}
