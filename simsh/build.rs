// Passes the repository root to the harness so that the unmodified CLI accumulation loop
// (cli/src/create/runner.rs) can be compiled into it with include!.
fn main() {
    let root = std::env::var("VERIF_REPO_ROOT").unwrap_or_else(|_| "/repo".to_string());
    println!("cargo:rustc-env=VERIF_REPO_ROOT={root}");
    println!("cargo:rerun-if-env-changed=VERIF_REPO_ROOT");
    println!("cargo:rerun-if-changed={root}/cli/src/create/runner.rs");
}
