//! `SimGenotypeSource`: a simulated genotype source plugged into the repository's own
//! `genotype::Reader` trait.  It delivers explicit per-sample results for each record and
//! can fail at an arbitrary record index (source I/O error), deliver a ploidy error for one
//! sample, or signal `Done` in the middle of the stream and then continue.

use std::{cell::RefCell, io, rc::Rc};

use serde::{Deserialize, Serialize};

use sfs_core::input::{
    genotype::{self, Genotype},
    ReadStatus, Sample,
};

/// per-sample result code: 0,1,2 = genotype; 3 = missing; 4 = multiallelic; 5 = ploidy error
pub type G = u8;
pub const G_MISSING: G = 3;
pub const G_MULTI: G = 4;
pub const G_PLOIDY: G = 5;

#[derive(Clone, Debug, PartialEq, Serialize, Deserialize)]
pub enum Item {
    /// a record with one result per sample
    Rec { contig: String, pos: usize, g: Vec<G> },
    /// the source fails here (ReadStatus::Error) and then continues with the next item;
    /// kind: 0 Other (EIO), 1 UnexpectedEof (stream cut inside a record), 2 InvalidData,
    /// 3 Interrupted, 4 TimedOut
    SourceError {
        contig: String,
        pos: usize,
        #[serde(default)]
        kind: u8,
    },
    /// the source signals Done here once, then continues (a library caller may go on reading)
    DoneOnce,
}

pub fn to_result(g: G) -> genotype::Result {
    match g {
        0 => genotype::Result::Genotype(Genotype::Zero),
        1 => genotype::Result::Genotype(Genotype::One),
        2 => genotype::Result::Genotype(Genotype::Two),
        G_MISSING => genotype::Result::Skipped(genotype::Skipped::Missing),
        G_MULTI => genotype::Result::Skipped(genotype::Skipped::Multiallelic),
        _ => genotype::Result::Error(genotype::Error::PloidyError),
    }
}

/// Maps a VCF GT string to the result code the simulated source delivers for it. This
/// defines the *stub's* behaviour only; how the real VCF/BCF readers classify genotypes is
/// C08's subject and is not judged anywhere through this function.
pub fn gt_to_g(gt: &str) -> G {
    let parts: Vec<&str> = gt.split(|c| c == '/' || c == '|').collect();
    if parts.len() != 2 {
        return G_PLOIDY;
    }
    let a = parts[0].parse::<usize>();
    let b = parts[1].parse::<usize>();
    match (a, b) {
        (Ok(a), Ok(b)) => {
            if a + b <= 2 {
                (a + b) as G
            } else {
                G_MULTI
            }
        }
        _ => G_MISSING,
    }
}

#[derive(Debug, Default)]
pub struct GenoStats {
    pub reads: u64,
    pub delivered: u64,
    pub errors_fired: u64,
    pub done_fired: u64,
}

pub struct SimGenotypeSource {
    samples: Vec<Sample>,
    items: Vec<Item>,
    cursor: usize,
    contig: String,
    pos: usize,
    pub stats: Rc<RefCell<GenoStats>>,
}

impl SimGenotypeSource {
    pub fn new(samples: &[String], items: Vec<Item>) -> (Self, Rc<RefCell<GenoStats>>) {
        let stats = Rc::new(RefCell::new(GenoStats::default()));
        (
            SimGenotypeSource {
                samples: samples.iter().map(|s| Sample::from(s.as_str())).collect(),
                items,
                cursor: 0,
                contig: String::new(),
                pos: 0,
                stats: stats.clone(),
            },
            stats,
        )
    }
}

impl genotype::Reader for SimGenotypeSource {
    fn current_contig(&self) -> &str {
        &self.contig
    }

    fn current_position(&self) -> usize {
        self.pos
    }

    #[cfg(not(verif_geno_fill))]
    fn read_genotypes(&mut self) -> ReadStatus<Vec<genotype::Result>> {
        self.next_item()
    }

    /// buffer-filling shape of the trait method (see build.rs): the record replaces the buffer's content
    #[cfg(verif_geno_fill)]
    fn read_genotypes(&mut self, buf: &mut Vec<genotype::Result>) -> ReadStatus<()> {
        match self.next_item() {
            ReadStatus::Read(v) => {
                buf.clear();
                buf.extend(v);
                ReadStatus::Read(())
            }
            ReadStatus::Error(e) => ReadStatus::Error(e),
            ReadStatus::Done => ReadStatus::Done,
        }
    }

    fn samples(&self) -> &[Sample] {
        &self.samples
    }
}

impl SimGenotypeSource {
    fn next_item(&mut self) -> ReadStatus<Vec<genotype::Result>> {
        let mut st = self.stats.borrow_mut();
        st.reads += 1;
        if crate::harness::trace_on() {
            crate::harness::trace_note(format!(
                "   genotype source read #{}: {}",
                st.reads,
                match self.items.get(self.cursor) {
                    None => "Done".to_string(),
                    Some(Item::Rec { contig, pos, g }) => format!("record {contig}:{pos} {g:?}"),
                    Some(Item::SourceError { contig, pos, kind }) => format!("FAULT source error (kind {kind}) at {contig}:{pos}"),
                    Some(Item::DoneOnce) => "FAULT Done (once), stream continues".to_string(),
                }
            ));
        }
        match self.items.get(self.cursor) {
            None => ReadStatus::Done,
            Some(item) => {
                self.cursor += 1;
                match item {
                    Item::Rec { contig, pos, g } => {
                        self.contig = contig.clone();
                        self.pos = *pos;
                        st.delivered += 1;
                        ReadStatus::Read(g.iter().map(|&x| to_result(x)).collect())
                    }
                    Item::SourceError { contig, pos, kind } => {
                        self.contig = contig.clone();
                        self.pos = *pos;
                        st.errors_fired += 1;
                        let k = match kind {
                            1 => io::ErrorKind::UnexpectedEof,
                            2 => io::ErrorKind::InvalidData,
                            3 => io::ErrorKind::Interrupted,
                            4 => io::ErrorKind::TimedOut,
                            _ => io::ErrorKind::Other,
                        };
                        ReadStatus::Error(io::Error::new(k, "simulated source error"))
                    }
                    Item::DoneOnce => {
                        st.done_fired += 1;
                        ReadStatus::Done
                    }
                }
            }
        }
    }
}
