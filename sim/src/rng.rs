//! The only source of randomness in the simulator: xoshiro256** seeded through splitmix64.
//! No crate, no platform dependence; one integer decides everything.

#[derive(Clone, Debug)]
pub struct Rng {
    s: [u64; 4],
}

pub fn splitmix64(state: &mut u64) -> u64 {
    *state = state.wrapping_add(0x9e37_79b9_7f4a_7c15);
    let mut z = *state;
    z = (z ^ (z >> 30)).wrapping_mul(0xbf58_476d_1ce4_e5b9);
    z = (z ^ (z >> 27)).wrapping_mul(0x94d0_49bb_1331_11eb);
    z ^ (z >> 31)
}

/// Per-case seed: a pure function of (VERIF_SEED, property stream, case index).
pub fn mix(seed: u64, stream: u64, idx: u64) -> u64 {
    let mut st = seed ^ 0x5851_f42d_4c95_7f2d;
    let a = splitmix64(&mut st);
    let mut st2 = a ^ stream.wrapping_mul(0x2545_f491_4f6c_dd1d);
    let b = splitmix64(&mut st2);
    let mut st3 = b ^ idx.wrapping_mul(0x9e37_79b9_7f4a_7c15);
    splitmix64(&mut st3)
}

pub fn stream_of(id: &str) -> u64 {
    fnv1a(id.as_bytes())
}

pub fn fnv1a(bytes: &[u8]) -> u64 {
    let mut h: u64 = 0xcbf2_9ce4_8422_2325;
    for b in bytes {
        h ^= *b as u64;
        h = h.wrapping_mul(0x0000_0100_0000_01b3);
    }
    h
}

pub fn fnv1a_add(mut h: u64, bytes: &[u8]) -> u64 {
    for b in bytes {
        h ^= *b as u64;
        h = h.wrapping_mul(0x0000_0100_0000_01b3);
    }
    h
}

pub fn fnv_u64(h: u64, v: u64) -> u64 {
    fnv1a_add(h, &v.to_le_bytes())
}

pub const FNV_INIT: u64 = 0xcbf2_9ce4_8422_2325;

impl Rng {
    pub fn new(seed: u64) -> Self {
        let mut st = seed;
        let s = [
            splitmix64(&mut st),
            splitmix64(&mut st),
            splitmix64(&mut st),
            splitmix64(&mut st),
        ];
        Rng { s }
    }

    pub fn next_u64(&mut self) -> u64 {
        let result = self.s[1].wrapping_mul(5).rotate_left(7).wrapping_mul(9);
        let t = self.s[1] << 17;
        self.s[2] ^= self.s[0];
        self.s[3] ^= self.s[1];
        self.s[1] ^= self.s[2];
        self.s[0] ^= self.s[3];
        self.s[2] ^= t;
        self.s[3] = self.s[3].rotate_left(45);
        result
    }

    /// Uniform in 0..n (n > 0).
    pub fn below(&mut self, n: u64) -> u64 {
        debug_assert!(n > 0);
        // multiply-shift; bias is irrelevant for a simulator
        ((self.next_u64() as u128 * n as u128) >> 64) as u64
    }

    /// Uniform in lo..=hi.
    pub fn range(&mut self, lo: usize, hi: usize) -> usize {
        debug_assert!(lo <= hi);
        lo + self.below((hi - lo + 1) as u64) as usize
    }

    pub fn chance(&mut self, num: u64, den: u64) -> bool {
        self.below(den) < num
    }

    pub fn pick<'a, T>(&mut self, xs: &'a [T]) -> &'a T {
        &xs[self.below(xs.len() as u64) as usize]
    }

    pub fn f64(&mut self) -> f64 {
        (self.next_u64() >> 11) as f64 / (1u64 << 53) as f64
    }

    pub fn shuffle<T>(&mut self, xs: &mut [T]) {
        for i in (1..xs.len()).rev() {
            let j = self.below(i as u64 + 1) as usize;
            xs.swap(i, j);
        }
    }

    /// Weighted choice: returns index.
    pub fn weighted(&mut self, w: &[u32]) -> usize {
        let total: u64 = w.iter().map(|&x| x as u64).sum();
        let mut r = self.below(total.max(1));
        for (i, &x) in w.iter().enumerate() {
            if r < x as u64 {
                return i;
            }
            r -= x as u64;
        }
        w.len() - 1
    }

    pub fn fork(&mut self) -> Rng {
        Rng::new(self.next_u64())
    }
}
