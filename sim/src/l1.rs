//! Layer L1: the real sfs-core and the real CLI accumulation loop (`Runner`, compiled in
//! unchanged from cli/src/create/runner.rs) driven in-process over simulated transports.
//! The few lines that replicate `Create::run` (builder -> builder -> Runner -> write) are
//! harness glue and are listed as a stub in the evidence; L2 covers the real `Create::run`.

use std::{
    cell::RefCell,
    io::{self, BufRead},
    num::NonZeroUsize,
    panic::{catch_unwind, AssertUnwindSafe},
    sync::Once,
};

use sfs_core::{
    array::Shape,
    input::{genotype, sample, site, Sample},
    spectrum::io::{write, Format},
    Scs,
};

use crate::gen::Config;

#[allow(dead_code)]
pub mod runner {
    include!(concat!(env!("VERIF_REPO_ROOT"), "/cli/src/create/runner.rs"));
}

thread_local! {
    /// what the CLI's -q/-v flags select: the level filter of the (per-thread) capture logger
    static LEVEL: std::cell::Cell<log::LevelFilter> = const { std::cell::Cell::new(log::LevelFilter::Trace) };
    static LOGS: RefCell<Vec<(log::Level, String)>> = RefCell::new(Vec::new());
    static PANIC_MSG: RefCell<Option<String>> = RefCell::new(None);
    /// > 0 while code under test runs inside `guarded`; a panic outside is a harness bug and is printed
    static GUARD_DEPTH: std::cell::Cell<u32> = const { std::cell::Cell::new(0) };
}

struct CaptureLog;

impl log::Log for CaptureLog {
    fn enabled(&self, m: &log::Metadata) -> bool {
        m.level() <= LEVEL.with(|l| l.get())
    }
    fn log(&self, record: &log::Record) {
        if self.enabled(record.metadata()) {
            LOGS.with(|l| l.borrow_mut().push((record.level(), format!("{}", record.args()))));
        }
    }
    fn flush(&self) {}
}

static LOGGER: CaptureLog = CaptureLog;
static INIT: Once = Once::new();

pub fn init() {
    INIT.call_once(|| {
        let _ = log::set_logger(&LOGGER);
        log::set_max_level(log::LevelFilter::Trace);
        std::panic::set_hook(Box::new(|info| {
            let loc = info
                .location()
                .map(|l| format!("{}:{}", l.file(), l.line()))
                .unwrap_or_default();
            let msg = if let Some(s) = info.payload().downcast_ref::<&str>() {
                s.to_string()
            } else if let Some(s) = info.payload().downcast_ref::<String>() {
                s.clone()
            } else {
                "panic".to_string()
            };
            if GUARD_DEPTH.with(|d| d.get()) == 0 {
                eprintln!("harness panic at {loc}: {msg}\n{}", std::backtrace::Backtrace::force_capture());
            }
            PANIC_MSG.with(|p| *p.borrow_mut() = Some(format!("{loc}: {msg}")));
        }));
    });
}

/// 0 = default (info), 1 = -v (debug), 2 = -vv (trace); applies to the calling thread
pub fn set_verbosity(v: u8) {
    LEVEL.with(|l| {
        l.set(match v {
            0 => log::LevelFilter::Info,
            1 => log::LevelFilter::Debug,
            _ => log::LevelFilter::Trace,
        })
    });
}

pub fn take_logs() -> Vec<(log::Level, String)> {
    LOGS.with(|l| std::mem::take(&mut *l.borrow_mut()))
}

/// Runs `f`, converting a panic into `Err(location: message)`.
pub fn guarded<T>(f: impl FnOnce() -> T) -> Result<T, String> {
    init();
    GUARD_DEPTH.with(|d| d.set(d.get() + 1));
    let r = catch_unwind(AssertUnwindSafe(f));
    GUARD_DEPTH.with(|d| d.set(d.get().saturating_sub(1)));
    match r {
        Ok(v) => Ok(v),
        Err(_) => Err(PANIC_MSG
            .with(|p| p.borrow_mut().take())
            .unwrap_or_else(|| "panic (no message)".to_string())),
    }
}

/// Normalises a panic string to (file, message without numbers) for use as a finding key.
pub fn panic_key(p: &str) -> String {
    let mut out = String::new();
    let p = p.replace("/repo/", "");
    let mut prev_digit = false;
    // keep file name and line out of the key: lines shift with unrelated edits
    let (loc, msg) = p.split_once(": ").unwrap_or(("", &p));
    let file = loc.split(':').next().unwrap_or("");
    // repository-relative path, wherever the checkout lives
    let file = ["core/src/", "cli/src/"]
        .iter()
        .find_map(|m| file.find(m).map(|i| &file[i..]))
        .unwrap_or(file);
    // dependency sources: "<crate>-<version>/src/..." (drop the registry location), std: "library/..."
    let file = match file.find("/registry/src/") {
        Some(i) => file[i + 14..].split_once('/').map(|x| x.1).unwrap_or(file),
        None => match file.find("/library/") {
            Some(i) => &file[i + 1..],
            None => file,
        },
    };
    for c in msg.chars() {
        if c.is_ascii_digit() {
            if !prev_digit {
                out.push('N');
            }
            prev_digit = true;
        } else {
            prev_digit = false;
            out.push(c);
        }
    }
    let out: String = out.chars().take(80).collect();
    format!("{file} \"{out}\"")
}

#[derive(Debug, Clone, PartialEq)]
pub enum Res<T> {
    Ok(T),
    Err(String),
    Panic(String),
}

impl<T> Res<T> {
    pub fn class(&self) -> &'static str {
        match self {
            Res::Ok(_) => "ok",
            Res::Err(_) => "err",
            Res::Panic(_) => "panic",
        }
    }
    pub fn is_ok(&self) -> bool {
        matches!(self, Res::Ok(_))
    }
}

pub struct CreateOut {
    /// spectrum as (shape, f64 bit patterns)
    pub result: Res<(Vec<usize>, Vec<u64>)>,
    pub stage: &'static str,
    pub logs: Vec<(log::Level, String)>,
    pub skipped_summary: Option<(usize, usize)>,
    pub skipped_sites: Vec<String>,
}

pub fn site_builder(cfg: &Config) -> site::reader::Builder {
    let samples = cfg.sel.as_ref().map(|list| {
        site::reader::builder::Samples::List(
            list.iter()
                .map(|(s, l)| (Sample::from(s.as_str()), sample::Population::from(l.as_deref())))
                .collect(),
        )
    });
    let project = cfg
        .project
        .as_ref()
        .map(|shape| site::reader::builder::Project::Shape(Shape(shape.clone())));
    site::reader::Builder::default().set_samples(samples).set_project(project)
}

/// Reads the skip accounting off the tool's messages, tolerant of wording: the summary is the
/// first "<a>/<b>" fraction on a line that mentions "skipped"; a skipped site is a
/// "contig:position" token on a line that mentions "skipping".
pub fn parse_skip_text<'a>(lines: impl Iterator<Item = &'a str>) -> (Option<(usize, usize)>, Vec<String>) {
    fn fraction(line: &str) -> Option<(usize, usize)> {
        let b = line.as_bytes();
        for (i, &c) in b.iter().enumerate() {
            if c == b'/' {
                let mut s = i;
                while s > 0 && b[s - 1].is_ascii_digit() {
                    s -= 1;
                }
                let mut e = i + 1;
                while e < b.len() && b[e].is_ascii_digit() {
                    e += 1;
                }
                if s < i && e > i + 1 {
                    if let (Ok(x), Ok(y)) = (line[s..i].parse(), line[i + 1..e].parse()) {
                        return Some((x, y));
                    }
                }
            }
        }
        None
    }
    fn site(line: &str) -> Option<String> {
        // a token <name>:<digits>, with or without quotes around it
        for tok in line.split(|c: char| c.is_whitespace() || c == '\'' || c == '"' || c == '`') {
            let tok = tok.trim_matches(|c: char| c == '.' || c == ',' || c == ';' || c == '(' || c == ')');
            if let Some((name, pos)) = tok.rsplit_once(':') {
                if !name.is_empty() && !pos.is_empty() && pos.bytes().all(|c| c.is_ascii_digit()) {
                    return Some(tok.to_string());
                }
            }
        }
        None
    }
    let mut summary = None;
    let mut sites = vec![];
    for line in lines {
        let lower = line.to_ascii_lowercase();
        if lower.contains("skipped") && summary.is_none() {
            summary = fraction(line);
        }
        if lower.contains("skipping site") || (lower.contains("skipping") && !lower.contains("sample")) {
            if let Some(s) = site(line) {
                sites.push(s);
            }
        }
    }
    (summary, sites)
}

pub fn parse_logs(logs: &[(log::Level, String)]) -> (Option<(usize, usize)>, Vec<String>) {
    parse_skip_text(logs.iter().map(|(_, m)| m.as_str()))
}

/// `create` over a genotype reader (the generic tail shared by all L1 entry points).
pub fn create_from_genotype_reader(reader: genotype::reader::DynReader, cfg: &Config) -> CreateOut {
    init();
    let _ = take_logs();
    let mut stage = "build_site";
    let r = guarded(|| -> Result<Scs, String> {
        let site_reader = site_builder(cfg).build(reader).map_err(|e| e.to_string())?;
        stage = "run";
        let mut runner = runner::Runner::new(site_reader, cfg.strict).map_err(|e| e.to_string())?;
        runner.run().map_err(|e| e.to_string())
    });
    let logs = take_logs();
    let (skipped_summary, skipped_sites) = parse_logs(&logs);
    let result = match r {
        Ok(Ok(scs)) => Res::Ok((
            scs.shape().to_vec(),
            scs.inner().as_slice().iter().map(|x| x.to_bits()).collect(),
        )),
        Ok(Err(e)) => Res::Err(e),
        Err(p) => Res::Panic(p),
    };
    CreateOut {
        result,
        stage,
        logs,
        skipped_summary,
        skipped_sites,
    }
}

/// `create` over a caller-supplied buffered reader, through hook H1
/// (`genotype::reader::Builder::build_from_bufread`): format and compression detection and
/// reader construction are the shipped code.
pub fn create_from_bufread<R: BufRead + 'static>(r: R, cfg: &Config, threads: usize) -> CreateOut {
    init();
    let built = guarded(|| {
        genotype::reader::Builder::default()
            .set_threads(NonZeroUsize::new(threads.max(1)).unwrap())
            .build_from_bufread(r)
    });
    match built {
        Ok(Ok(reader)) => create_from_genotype_reader(reader, cfg),
        Ok(Err(e)) => CreateOut {
            result: Res::Err(e.to_string()),
            stage: "build_genotype",
            logs: take_logs(),
            skipped_summary: None,
            skipped_sites: vec![],
        },
        Err(p) => CreateOut {
            result: Res::Panic(p),
            stage: "build_genotype",
            logs: take_logs(),
            skipped_summary: None,
            skipped_sites: vec![],
        },
    }
}

pub fn scs_from(shape: &[usize], bits: &[u64]) -> Scs {
    Scs::new(bits.iter().map(|b| f64::from_bits(*b)).collect::<Vec<f64>>(), Shape(shape.to_vec())).expect("shape")
}

/// Writes a spectrum through the public writer into `w`.
pub fn write_spectrum<W: io::Write>(w: &mut W, scs: &Scs, npy: bool, precision: usize) -> Res<()> {
    let r = guarded(|| {
        write::Builder::default()
            .set_format(if npy { Format::Npy } else { Format::Text })
            .set_precision(precision)
            .write(w, scs)
    });
    match r {
        Ok(Ok(())) => Res::Ok(()),
        Ok(Err(e)) => Res::Err(e.to_string()),
        Err(p) => Res::Panic(p),
    }
}

/// Reads an npy image through the public reader.
pub fn read_npy<R: BufRead>(r: R) -> Res<(Vec<usize>, Vec<u64>)> {
    let res = guarded(|| sfs_core::Array::read_npy(r));
    match res {
        Ok(Ok(a)) => Res::Ok((a.shape().to_vec(), a.as_slice().iter().map(|x| x.to_bits()).collect())),
        Ok(Err(e)) => Res::Err(format!("{:?}: {e}", e.kind())),
        Err(p) => Res::Panic(p),
    }
}

/// Reads a spectrum file (auto-detected format) through the real `read::Builder::read`.
pub fn read_spectrum_file(path: &std::path::Path) -> Res<(Vec<usize>, Vec<u64>)> {
    let res = guarded(|| {
        sfs_core::spectrum::io::read::Builder::default()
            .set_input(sfs_core::Input::new_unchecked(Some(path.to_path_buf())))
            .read()
    });
    match res {
        Ok(Ok(s)) => Res::Ok((
            s.shape().to_vec(),
            s.inner().as_slice().iter().map(|x| x.to_bits()).collect(),
        )),
        Ok(Err(e)) => Res::Err(format!("{:?}: {e}", e.kind())),
        Err(p) => Res::Panic(p),
    }
}
