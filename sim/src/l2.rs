//! Layer L2: the unmodified `sfs` binary (dev profile) as a child process whose read/write/
//! open/getrandom results on governed descriptors follow a plan executed by the LD_PRELOAD
//! shim (/verif/shim/simio.c).  argv, environment, cwd, stdin kind and scratch files are
//! all constructed by the simulator.

use std::{
    fs::File,
    io::Write,
    os::unix::process::ExitStatusExt,
    path::PathBuf,
    process::{Command, Stdio},
};

use serde::{Deserialize, Serialize};

use crate::{
    harness::Ctx,
    rng::{fnv1a_add, fnv_u64, FNV_INIT},
};

#[derive(Clone, Debug, PartialEq, Serialize, Deserialize)]
pub enum Target {
    Stdin,
    Stdout,
    /// a scratch file name (resolved inside the case directory)
    File(String),
}

#[derive(Clone, Debug, Default, PartialEq, Serialize, Deserialize)]
pub struct Plan {
    pub input: Option<Target>,
    pub output: Option<Target>,
    pub rd_chunks: Vec<usize>,
    pub rd_rest: usize,
    pub rd_fail: Vec<(usize, i32)>,
    pub rd_eintr: Vec<usize>,
    pub wr_chunks: Vec<usize>,
    pub wr_rest: usize,
    pub wr_fail: Vec<(usize, i32)>,
    pub wr_eintr: Vec<usize>,
    pub wr_kill: Option<usize>,
    pub hashseed: Option<u64>,
}

pub const EIO: i32 = 5;
pub const ENOSPC: i32 = 28;
pub const EPIPE: i32 = 32;
pub const ECONNRESET: i32 = 104;
pub const ETIMEDOUT: i32 = 110;
pub const EDQUOT: i32 = 122;

#[derive(Clone, Debug, PartialEq, Serialize, Deserialize)]
pub enum Stdin {
    Null,
    /// stdin redirected from a regular file holding these bytes (hex)
    File(String),
    /// stdin is a pipe that is completely filled and closed before the child starts
    Pipe(String),
    /// stdin redirected from a named scratch file
    Named(String),
}

#[derive(Clone, Debug, PartialEq, Serialize, Deserialize)]
pub struct Child {
    pub args: Vec<String>,
    pub env: Vec<(String, String)>,
    pub stdin: Stdin,
    pub plan: Option<Plan>,
    /// scratch files (name, hex bytes) created in the case directory before the run;
    /// the token `@DIR@` in args is replaced by that directory
    pub files: Vec<(String, String)>,
}

#[derive(Clone, Debug, Default)]
pub struct ShimEvent {
    pub op: char,
    pub call: i64,
    pub off: i64,
    pub req: i64,
    pub ret: i64,
    pub err: i32,
}

#[derive(Clone, Debug, Default)]
pub struct ChildResult {
    pub code: Option<i32>,
    pub signal: Option<i32>,
    pub stdout: Vec<u8>,
    pub stderr: Vec<u8>,
    pub events: Vec<ShimEvent>,
    pub dir: PathBuf,
    pub spawn_error: Option<String>,
}

impl ChildResult {
    pub fn ok(&self) -> bool {
        self.code == Some(0)
    }
    pub fn panicked(&self) -> bool {
        self.code == Some(101) || self.signal.is_some() || contains(&self.stderr, b"panicked at")
    }
    pub fn stderr_text(&self) -> String {
        String::from_utf8_lossy(&self.stderr).to_string()
    }
    pub fn fired(&self, op: char) -> Vec<&ShimEvent> {
        self.events.iter().filter(|e| e.op == op && e.ret < 0).collect()
    }
    pub fn rd_err_fired(&self) -> bool {
        self.events.iter().any(|e| e.op == 'r' && e.ret < 0 && e.err != 4)
    }
    pub fn wr_err_fired(&self) -> bool {
        self.events.iter().any(|e| e.op == 'w' && e.ret < 0 && e.err != 4)
    }
    pub fn eintr_fired(&self) -> bool {
        self.events.iter().any(|e| e.ret < 0 && e.err == 4)
    }
    pub fn status_class(&self) -> String {
        match (self.code, self.signal) {
            (Some(c), _) => format!("exit{c}"),
            (None, Some(s)) => format!("signal{s}"),
            _ => "unknown".to_string(),
        }
    }
    /// digest over the oracle-relevant outcome and the shim's event log
    pub fn digest(&self) -> u64 {
        let mut d = FNV_INIT;
        d = fnv_u64(d, self.code.unwrap_or(-1) as u64);
        d = fnv_u64(d, self.signal.unwrap_or(-1) as u64);
        d = fnv1a_add(d, &self.stdout);
        for e in &self.events {
            if e.op == 'g' {
                continue;
            }
            d = fnv_u64(d, e.op as u64);
            d = fnv_u64(d, e.off as u64);
            d = fnv_u64(d, e.req as u64);
            d = fnv_u64(d, e.ret as u64);
            d = fnv_u64(d, e.err as u64);
        }
        d
    }
    pub fn sig(&self) -> u64 {
        let mut d = FNV_INIT;
        for e in &self.events {
            if e.op == 'g' {
                continue;
            }
            let class: u64 = if e.ret < 0 {
                1000 + e.err as u64
            } else if e.ret == 0 {
                0
            } else if e.ret < e.req {
                1 + (64 - (e.ret as u64).leading_zeros() as u64)
            } else {
                100
            };
            d = fnv_u64(d, (e.op as u64) << 32 | class);
        }
        d
    }
}

pub fn contains(hay: &[u8], needle: &[u8]) -> bool {
    hay.windows(needle.len()).any(|w| w == needle)
}

fn list(chunks: &[usize], rest: usize) -> String {
    let mut s: Vec<String> = chunks.iter().map(|c| c.to_string()).collect();
    if rest > 0 {
        s.push(format!("*{rest}"));
    }
    s.join(",")
}

fn plan_text(plan: &Plan, dir: &std::path::Path, log: &std::path::Path) -> String {
    let mut s = String::new();
    let tgt = |t: &Target| match t {
        Target::Stdin => "stdin".to_string(),
        Target::Stdout => "stdout".to_string(),
        Target::File(n) => format!("path:{}", dir.join(n).display()),
    };
    if let Some(t) = &plan.input {
        s.push_str(&format!("in {}\n", tgt(t)));
    }
    if let Some(t) = &plan.output {
        s.push_str(&format!("out {}\n", tgt(t)));
    }
    if !plan.rd_chunks.is_empty() || plan.rd_rest > 0 {
        s.push_str(&format!("rd.chunks {}\n", list(&plan.rd_chunks, plan.rd_rest)));
    }
    if !plan.wr_chunks.is_empty() || plan.wr_rest > 0 {
        s.push_str(&format!("wr.chunks {}\n", list(&plan.wr_chunks, plan.wr_rest)));
    }
    for (o, e) in &plan.rd_fail {
        s.push_str(&format!("rd.fail {o} {e}\n"));
    }
    for (o, e) in &plan.wr_fail {
        s.push_str(&format!("wr.fail {o} {e}\n"));
    }
    if !plan.rd_eintr.is_empty() {
        s.push_str(&format!("rd.eintr {}\n", list(&plan.rd_eintr, 0)));
    }
    if !plan.wr_eintr.is_empty() {
        s.push_str(&format!("wr.eintr {}\n", list(&plan.wr_eintr, 0)));
    }
    if let Some(k) = plan.wr_kill {
        s.push_str(&format!("wr.kill {k}\n"));
    }
    if let Some(h) = plan.hashseed {
        s.push_str(&format!("hashseed {h}\n"));
    }
    s.push_str(&format!("log {}\n", log.display()));
    s
}

fn make_pipe_filled(data: &[u8]) -> std::io::Result<File> {
    use std::os::fd::FromRawFd;
    let mut fds = [0i32; 2];
    // SAFETY: plain libc calls on fresh descriptors
    unsafe {
        if libc::pipe2(fds.as_mut_ptr(), libc::O_CLOEXEC) != 0 {
            return Err(std::io::Error::last_os_error());
        }
        let want = (data.len() + 4096).max(65536) as i32;
        libc::fcntl(fds[1], libc::F_SETPIPE_SZ, want);
        let cap = libc::fcntl(fds[1], libc::F_GETPIPE_SZ);
        let mut w = File::from_raw_fd(fds[1]);
        let r = File::from_raw_fd(fds[0]);
        if (cap as usize) < data.len() {
            return Err(std::io::Error::new(std::io::ErrorKind::Other, "pipe too small"));
        }
        w.write_all(data)?;
        drop(w);
        Ok(r)
    }
}

pub fn max_pipe_payload() -> usize {
    // /proc/sys/fs/pipe-max-size is 1 MiB by default; stay well below
    512 * 1024
}

/// Runs one child to completion. Every file the child can touch lives in a fresh case
/// directory under the worker's scratch directory, removed by the caller via `cleanup`.
pub fn run_child(ctx: &mut Ctx, child: &Child) -> ChildResult {
    run_child_inner(ctx, child, false)
}

/// Same, with the working directory set to a sub-directory of the case directory.
pub fn run_child_in_subdir(ctx: &mut Ctx, child: &Child) -> ChildResult {
    run_child_inner(ctx, child, true)
}

fn run_child_inner(ctx: &mut Ctx, child: &Child, subdir: bool) -> ChildResult {
    ctx.serial += 1;
    let dir = ctx.scratch.join(format!("c{}", ctx.serial));
    let _ = std::fs::remove_dir_all(&dir);
    if let Err(e) = std::fs::create_dir_all(&dir) {
        return ChildResult {
            spawn_error: Some(format!("mkdir: {e}")),
            ..Default::default()
        };
    }
    for (name, hexbytes) in &child.files {
        let _ = std::fs::write(dir.join(name), crate::gen::unhex(hexbytes));
    }
    let dir_s = dir.display().to_string();
    let args: Vec<String> = child.args.iter().map(|a| a.replace("@DIR@", &dir_s)).collect();
    let out_path = dir.join(".stdout");
    let err_path = dir.join(".stderr");
    let log_path = dir.join(".events");
    // the pseudo-variable SIMIO_ARGV0 asks for the binary to be started through a symlink of
    // that name (argv[0] differs); it is not exported to the child
    let argv0 = child.env.iter().find(|(k, _)| k == "SIMIO_ARGV0").map(|(_, v)| v.clone());
    let program = match &argv0 {
        Some(name) => {
            let link = dir.join(name);
            let _ = std::os::unix::fs::symlink(&ctx.sfs_bin, &link);
            link
        }
        None => ctx.sfs_bin.clone(),
    };
    let mut cmd = Command::new(&program);
    cmd.args(&args);
    cmd.env_clear();
    cmd.env("SFS_ALLOW_STDIN", "1");
    for (k, v) in &child.env {
        if k != "SIMIO_ARGV0" {
            cmd.env(k, v.replace("@DIR@", &dir_s));
        }
    }
    if let Some(plan) = &child.plan {
        let plan_path = dir.join(".plan");
        let _ = std::fs::write(&plan_path, plan_text(plan, &dir, &log_path));
        cmd.env("LD_PRELOAD", &ctx.shim);
        cmd.env("SIMIO_PLAN", &plan_path);
    }
    if subdir {
        let _ = std::fs::create_dir_all(dir.join("sub"));
        cmd.current_dir(dir.join("sub"));
    } else {
        cmd.current_dir(&dir);
    }
    let stdin = match &child.stdin {
        Stdin::Null => Stdio::null(),
        Stdin::File(h) => {
            let p = dir.join(".stdin");
            let _ = std::fs::write(&p, crate::gen::unhex(h));
            File::open(&p).map(Stdio::from).unwrap_or_else(|_| Stdio::null())
        }
        Stdin::Named(n) => File::open(dir.join(n)).map(Stdio::from).unwrap_or_else(|_| Stdio::null()),
        Stdin::Pipe(h) => match make_pipe_filled(&crate::gen::unhex(h)) {
            Ok(f) => Stdio::from(f),
            Err(e) => {
                return ChildResult {
                    spawn_error: Some(format!("pipe: {e}")),
                    dir,
                    ..Default::default()
                }
            }
        },
    };
    cmd.stdin(stdin);
    cmd.stdout(File::create(&out_path).map(Stdio::from).unwrap_or_else(|_| Stdio::null()));
    cmd.stderr(File::create(&err_path).map(Stdio::from).unwrap_or_else(|_| Stdio::null()));
    // resource limits protect the sandbox only (30 s CPU, 16 GiB address space); they are set
    // from the parent right after the spawn so that std can use the cheap posix_spawn path
    let mut ch = match cmd.spawn() {
        Ok(c) => c,
        Err(e) => {
            return ChildResult {
                spawn_error: Some(format!("spawn: {e}")),
                dir,
                ..Default::default()
            }
        }
    };
    unsafe {
        let pid = ch.id() as libc::pid_t;
        let cpu = libc::rlimit {
            rlim_cur: ctx.cpu_limit,
            rlim_max: ctx.cpu_limit,
        };
        libc::prlimit(pid, libc::RLIMIT_CPU, &cpu, std::ptr::null_mut());
        let mem = libc::rlimit {
            rlim_cur: 16 << 30,
            rlim_max: 16 << 30,
        };
        libc::prlimit(pid, libc::RLIMIT_AS, &mem, std::ptr::null_mut());
    }
    let status = match ch.wait() {
        Ok(s) => s,
        Err(e) => {
            return ChildResult {
                spawn_error: Some(format!("wait: {e}")),
                dir,
                ..Default::default()
            }
        }
    };
    let events = std::fs::read_to_string(&log_path)
        .map(|s| {
            s.lines()
                .filter_map(|l| {
                    let mut it = l.split(' ');
                    let op = it.next()?.chars().next()?;
                    Some(ShimEvent {
                        op,
                        call: it.next()?.parse().ok()?,
                        off: it.next()?.parse().ok()?,
                        req: it.next()?.parse().ok()?,
                        ret: it.next()?.parse().ok()?,
                        err: it.next()?.parse().ok()?,
                    })
                })
                .collect()
        })
        .unwrap_or_default();
    if crate::harness::trace_on() {
        crate::harness::trace_note(format!(
            "-- child: sfs {} (plan: {}) -> code={:?} signal={:?}",
            args.join(" "),
            child.plan.as_ref().map(|p| format!("{p:?}")).unwrap_or_else(|| "none".into()),
            status.code(),
            status.signal()
        ));
        let evs: &Vec<ShimEvent> = &events;
        for e in evs.iter().take(400) {
            crate::harness::trace_note(format!("   shim {} call={} off={} req={} ret={} errno={}", e.op, e.call, e.off, e.req, e.ret, e.err));
        }
    }
    ChildResult {
        code: status.code(),
        signal: status.signal(),
        stdout: std::fs::read(&out_path).unwrap_or_default(),
        stderr: std::fs::read(&err_path).unwrap_or_default(),
        events,
        dir,
        spawn_error: None,
    }
}

pub fn cleanup(res: &ChildResult) {
    if !res.dir.as_os_str().is_empty() {
        let _ = std::fs::remove_dir_all(&res.dir);
    }
}

/// CPU-limit kill or allocation abort under the address-space limit: artefacts of the limits.
pub fn inconclusive(res: &ChildResult) -> bool {
    res.spawn_error.is_some()
        || res.signal == Some(libc::SIGXCPU)
        || res.signal == Some(libc::SIGKILL)
        || contains(&res.stderr, b"memory allocation of")
}
