//! Workload generators. Everything generated is explicit data that is written into replay
//! files; a replay never depends on generator code staying the same.

use std::io::{self, Write};

use serde::{Deserialize, Serialize};

use crate::rng::Rng;

// ------------------------------------------------------------------------------------------
// call sets
// ------------------------------------------------------------------------------------------

#[derive(Clone, Debug, PartialEq, Serialize, Deserialize)]
pub struct Rec {
    pub contig: usize,
    pub pos: u32,
    pub nalt: u8,
    /// one GT string per sample, e.g. "0/1", "./.", "1|2", "0" (ploidy fault)
    pub gts: Vec<String>,
    /// record carries a second FORMAT field
    pub extra_fmt: bool,
    /// record kind tag (reach probes only)
    pub kind: u8,
    /// the record's FORMAT column has no GT key (only DP): every genotype is missing
    #[serde(default)]
    pub no_gt: bool,
}

#[derive(Clone, Debug, PartialEq, Serialize, Deserialize)]
pub struct CallSet {
    pub samples: Vec<String>,
    pub ncontigs: usize,
    pub extra_info: bool,
    pub recs: Vec<Rec>,
    /// how contigs are named: 0 chrN, 1 plain numbers, 2 odd contigs symbolic (<CTGn>), 3 scaffold names
    #[serde(default)]
    pub contig_style: u8,
}

/// What `create` is asked to do with a call set.
#[derive(Clone, Debug, PartialEq, Serialize, Deserialize)]
pub struct Config {
    /// explicit sample list (sample, population label); None = all samples, one unnamed population
    pub sel: Option<Vec<(String, Option<String>)>>,
    /// projection target shape
    pub project: Option<Vec<usize>>,
    pub strict: bool,
}

pub const K_COMPLETE: u8 = 0;
pub const K_SEL_MISSING: u8 = 1;
pub const K_UNSEL_MISSING: u8 = 2;
pub const K_MULTI: u8 = 3;
pub const K_ALL_MISSING: u8 = 4;
pub const K_MONO: u8 = 5;
pub const K_EXACT: u8 = 6;
pub const K_INSUFF: u8 = 7;
pub const K_PLOIDY_SEL: u8 = 8;
pub const K_PLOIDY_UNSEL: u8 = 9;
/// every population fixed for one allele, not the same in all populations
pub const K_FIXED_DIFF: u8 = 10;
/// one whole population uncalled
pub const K_POP_UNCALLED: u8 = 11;
/// one population carries an exact ALT count at a table / word-size boundary (170, 171, 255, 256, ...)
pub const K_EXACT_COUNT: u8 = 12;
/// a copy of the previous record in which one or two early columns are changed
pub const K_NEAR_COPY: u8 = 13;
pub const N_KINDS: usize = 14;
pub const KIND_NAMES: [&str; N_KINDS] = [
    "complete",
    "selected_missing",
    "only_unselected_missing",
    "multiallelic",
    "all_missing",
    "monomorphic",
    "exactly_sufficient",
    "insufficient",
    "ploidy_selected",
    "ploidy_unselected",
    "fixed_difference",
    "population_uncalled",
    "exact_count",
    "near_copy",
];

impl Config {
    /// population index of every sample (None = unselected), populations in first-appearance order
    pub fn pops_of(&self, samples: &[String]) -> (Vec<Option<usize>>, usize) {
        match &self.sel {
            None => (vec![Some(0); samples.len()], 1),
            Some(list) => {
                let mut labels: Vec<Option<String>> = vec![];
                let mut map: Vec<Option<usize>> = vec![None; samples.len()];
                for (s, l) in list {
                    let id = match labels.iter().position(|x| x == l) {
                        Some(i) => i,
                        None => {
                            labels.push(l.clone());
                            labels.len() - 1
                        }
                    };
                    if let Some(i) = samples.iter().position(|x| x == s) {
                        // a sample listed more than once keeps its first population
                        if map[i].is_none() {
                            map[i] = Some(id);
                        }
                    }
                }
                (map, labels.len())
            }
        }
    }

    pub fn pop_sizes(&self, samples: &[String]) -> Vec<usize> {
        let (m, n) = self.pops_of(samples);
        let mut sizes = vec![0; n];
        for p in m.into_iter().flatten() {
            sizes[p] += 1;
        }
        sizes
    }

    /// Same as `cli_args`, but the sample list goes through a samples file (`-S`); returns the
    /// arguments and the file content (one sample per line, optional tab-separated label).
    pub fn cli_args_with_samples_file(&self, path_token: &str) -> (Vec<String>, Option<Vec<u8>>) {
        let mut a = self.cli_args();
        let Some(list) = &self.sel else { return (a, None) };
        if let Some(i) = a.iter().position(|x| x == "-s") {
            a.drain(i..i + 2);
        }
        a.insert(0, path_token.to_string());
        a.insert(0, "-S".to_string());
        let mut txt = String::new();
        for (s, l) in list {
            match l {
                Some(l) => txt.push_str(&format!("{s}\t{l}\n")),
                None => txt.push_str(&format!("{s}\n")),
            }
        }
        (a, Some(txt.into_bytes()))
    }

    pub fn cli_args(&self) -> Vec<String> {
        let mut a = vec![];
        if let Some(list) = &self.sel {
            a.push("-s".to_string());
            a.push(
                list.iter()
                    .map(|(s, l)| match l {
                        Some(l) => format!("{s}={l}"),
                        None => s.clone(),
                    })
                    .collect::<Vec<_>>()
                    .join(","),
            );
        }
        if let Some(p) = &self.project {
            a.push("--project-shape".to_string());
            a.push(p.iter().map(|x| x.to_string()).collect::<Vec<_>>().join(","));
        }
        if self.strict {
            a.push("--strict".to_string());
        }
        a
    }
}

fn called_gt(rng: &mut Rng, alt_bias: u64) -> String {
    let a = if rng.below(100) < alt_bias { 1 } else { 0 };
    let b = if rng.below(100) < alt_bias { 1 } else { 0 };
    let sep = if rng.chance(1, 3) { '|' } else { '/' };
    format!("{a}{sep}{b}")
}

fn missing_gt(rng: &mut Rng) -> String {
    (*rng.pick(&["./.", ".|.", "./0", "1|.", "./1", "0/."])).to_string()
}

fn multi_gt(rng: &mut Rng, nalt: u8) -> String {
    let hi = nalt.max(2) as u64;
    let a = 2 + rng.below(hi - 1);
    let b = rng.below(hi + 1);
    let sep = if rng.chance(1, 3) { '|' } else { '/' };
    if rng.chance(1, 2) {
        format!("{a}{sep}{b}")
    } else {
        format!("{b}{sep}{a}")
    }
}

fn ploidy_gt(rng: &mut Rng) -> String {
    // non-diploid genotypes, with and without uncalled alleles among them
    (*rng.pick(&["0", "1", "0/0/0", "0/1/1", "0|1|0", "0/./1", ".|.|.", "./././.", "1/./."])).to_string()
}

pub struct CallSetParams {
    pub max_samples: usize,
    pub max_recs: usize,
    pub allow_ploidy: bool,
    pub allow_multi: bool,
    pub allow_missing: bool,
    pub allow_project: bool,
    pub allow_strict: bool,
    /// now and then a record without a GT key in its FORMAT column
    pub allow_no_gt: bool,
    /// weights over record kinds
    pub kind_w: [u32; N_KINDS],
    /// a cohort beyond the usual small-data thresholds (86 .. 300 samples, most of them selected)
    pub big_cohort: bool,
}

impl CallSetParams {
    pub fn standard(max_samples: usize, max_recs: usize) -> Self {
        CallSetParams {
            max_samples,
            max_recs,
            allow_ploidy: false,
            allow_multi: true,
            allow_missing: true,
            allow_project: true,
            allow_strict: false,
            allow_no_gt: false,
            kind_w: [6, 3, 2, 2, 1, 2, 2, 2, 0, 0, 1, 1, 1, 1],
            big_cohort: false,
        }
    }
}

pub fn gen_samples(rng: &mut Rng, max: usize) -> Vec<String> {
    // now and then a cohort beyond the usual small-data thresholds (64, 128, 255 samples)
    let n = if max >= 8 && rng.chance(1, 60) {
        *rng.pick(&[65usize, 128, 129, 256, 300])
    } else {
        rng.range(1, max.max(1))
    };
    let style = rng.below(5);
    (0..n)
        .map(|i| match style {
            0 => format!("s{i}"),
            1 => format!("sample{i}"),
            2 => format!("NA{:05}", 100 + i * 7),
            // names that are prefixes of one another, and names with punctuation
            3 => format!("s{}", "1".repeat(i % 4 + 1) + &"0".repeat(i / 4)),
            _ => format!("ind.{i}-a_{}", i % 3),
        })
        .collect()
}

pub fn gen_config(rng: &mut Rng, samples: &[String], p: &CallSetParams) -> Config {
    let n = samples.len();
    let sel = if rng.chance(1, 4) {
        None
    } else {
        // large cohorts get at most two populations: the spectrum has (2n+1)^d cells
        let mut many = false;
        let npop = if n > 400 {
            1
        } else if n > 40 {
            rng.range(1, 2)
        } else if n >= 9 && n <= 12 && rng.chance(1, 6) {
            // many small populations (3^9 .. 5^10 cells at most), every one of them used
            many = true;
            rng.range(9, n.min(10))
        } else {
            rng.range(1, 4.min(n))
        };
        let labels: Vec<Option<String>> = {
            let mut l: Vec<Option<String>> = (0..npop)
                .map(|i| Some(format!("{}{}", rng.pick(&["pop", "P", "grp"]), i)))
                .collect();
            if rng.chance(1, 12) {
                // a population label that equals a sample name
                let i = rng.below(npop as u64) as usize;
                l[i] = Some(samples[rng.below(n as u64) as usize].clone());
            }
            if rng.chance(1, 3) {
                let i = rng.below(npop as u64) as usize;
                l[i] = None;
            }
            l
        };
        let mut idx: Vec<usize> = (0..n).collect();
        rng.shuffle(&mut idx);
        let k = if many {
            n
        } else if p.big_cohort {
            rng.range(n - n / 8, n)
        } else {
            rng.range(1, n)
        };
        let mut list: Vec<(String, Option<String>)> = idx[..k]
            .iter()
            .enumerate()
            .map(|(j, &i)| (samples[i].clone(), if many { labels[j % npop].clone() } else { rng.pick(&labels).clone() }))
            .collect();
        if list.is_empty() {
            list.push((samples[0].clone(), None));
        }
        // now and then a sample is listed twice (same label), anywhere in the list
        if rng.chance(1, 10) {
            let e = rng.pick(&list).clone();
            let at = rng.range(0, list.len());
            list.insert(at, e);
        }
        Some(list)
    };
    let mut cfg = Config {
        sel,
        project: None,
        strict: false,
    };
    if p.allow_project && (rng.chance(1, 2) || (p.big_cohort && rng.chance(1, 2))) {
        let sizes = cfg.pop_sizes(samples);
        let shape = sizes
            .iter()
            .map(|&s| {
                let full = 2 * s; // chromosomes
                let m = match rng.below(if full >= 170 { 10 } else { 8 }) {
                    // projection targets at the bounds of the factorial table
                    8 | 9 => (*rng.pick(&[169usize, 170, 171, 172, 173])).min(full),
                    0 | 1 => full,
                    2 | 3 => rng.range(0, full),
                    4 | 5 => (full / 2).max(1).min(full),
                    6 => 0,
                    _ => rng.range(1.min(full), full),
                };
                m + 1
            })
            .collect();
        cfg.project = Some(shape);
    } else if p.allow_strict && rng.chance(1, 3) {
        cfg.strict = true;
    }
    cfg
}

/// Generates one record of the requested kind for the given configuration.
pub fn gen_rec(rng: &mut Rng, kind: u8, samples: &[String], cfg: &Config, contig: usize, pos: u32) -> Rec {
    let (pops, npop) = cfg.pops_of(samples);
    let n = samples.len();
    let sel: Vec<usize> = (0..n).filter(|&i| pops[i].is_some()).collect();
    let unsel: Vec<usize> = (0..n).filter(|&i| pops[i].is_none()).collect();
    let alt_bias = *rng.pick(&[10u64, 30, 50, 80]);
    let mut nalt = 1u8;
    let mut gts: Vec<String> = (0..n).map(|_| called_gt(rng, alt_bias)).collect();
    // unselected samples carry arbitrary (diploid) content by default
    for &i in &unsel {
        if rng.chance(1, 4) {
            gts[i] = missing_gt(rng);
        }
    }
    let mut kind = kind;
    match kind {
        K_COMPLETE => {
            for &i in &unsel {
                gts[i] = called_gt(rng, alt_bias);
            }
        }
        K_SEL_MISSING => {
            let i = *rng.pick(&sel);
            gts[i] = missing_gt(rng);
            if rng.chance(1, 3) && sel.len() > 1 {
                let j = *rng.pick(&sel);
                gts[j] = missing_gt(rng);
            }
        }
        K_UNSEL_MISSING => {
            if unsel.is_empty() {
                kind = K_COMPLETE;
            } else {
                for &i in &unsel {
                    gts[i] = called_gt(rng, alt_bias);
                }
                let i = *rng.pick(&unsel);
                gts[i] = if rng.chance(1, 2) {
                    missing_gt(rng)
                } else {
                    nalt = 2;
                    multi_gt(rng, 2)
                };
            }
        }
        K_MULTI => {
            nalt = rng.range(2, 3) as u8;
            let i = *rng.pick(&sel);
            gts[i] = multi_gt(rng, nalt);
        }
        K_ALL_MISSING => {
            for g in gts.iter_mut() {
                *g = missing_gt(rng);
            }
        }
        K_MONO => {
            let g = if rng.chance(1, 2) { "0/0" } else { "1/1" };
            for g2 in gts.iter_mut() {
                *g2 = g.to_string();
            }
        }
        K_EXACT | K_INSUFF => {
            // relative to the projection target: leave exactly (or one fewer than) the
            // required number of called chromosomes in one population
            if let Some(shape) = &cfg.project {
                let p = rng.below(npop as u64) as usize;
                let members: Vec<usize> = sel.iter().copied().filter(|&i| pops[i] == Some(p)).collect();
                let need = shape[p].saturating_sub(1); // chromosomes
                let need_ind = (need + 1) / 2;
                let keep = if kind == K_EXACT {
                    need_ind.min(members.len())
                } else {
                    need_ind.saturating_sub(1).min(members.len())
                };
                let mut m = members.clone();
                rng.shuffle(&mut m);
                for &i in &m[keep..] {
                    gts[i] = missing_gt(rng);
                }
                if kind == K_INSUFF && need_ind == 0 {
                    kind = K_COMPLETE;
                }
            } else {
                kind = K_COMPLETE;
            }
        }
        K_FIXED_DIFF | K_POP_UNCALLED => {
            let fixed: Vec<&str> = (0..npop).map(|_| if rng.chance(1, 2) { "1/1" } else { "0/0" }).collect();
            for &i in &sel {
                gts[i] = fixed[pops[i].unwrap()].to_string();
            }
            if kind == K_POP_UNCALLED {
                let p = rng.below(npop as u64) as usize;
                for &i in &sel {
                    if pops[i] == Some(p) {
                        gts[i] = missing_gt(rng);
                    }
                }
            } else if rng.chance(1, 2) && sel.len() > 1 {
                // one selected sample missing, so that the site is projectable but not exact
                let i = *rng.pick(&sel);
                gts[i] = missing_gt(rng);
            }
        }
        K_EXACT_COUNT => {
            // exactly c ALT alleles in one population, c at a boundary that small data never reaches
            let p = rng.below(npop as u64) as usize;
            let members: Vec<usize> = sel.iter().copied().filter(|&i| pops[i] == Some(p)).collect();
            let max = 2 * members.len();
            let wanted: Vec<usize> = [1usize, 2, 127, 128, 170, 171, 172, 255, 256, 257, 341, 342, 511, 512]
                .iter()
                .copied()
                .filter(|&c| c <= max)
                .chain([max, max.saturating_sub(1), max / 2])
                // the same boundaries for the REF count
                .chain([170usize, 171, 172, 255, 256].iter().filter(|&&r| r <= max).map(|&r| max - r))
                .collect();
            let c = *rng.pick(&wanted);
            let mut left = c;
            for (k, &i) in members.iter().enumerate() {
                let remaining_slots = 2 * (members.len() - k - 1);
                let a = if left >= 2 && (left > remaining_slots || rng.chance(1, 2)) {
                    2
                } else if left >= 1 && left > remaining_slots {
                    1
                } else if left >= 1 && rng.chance(1, 3) {
                    1
                } else {
                    0
                };
                let a = a.min(left);
                left -= a;
                gts[i] = match a {
                    2 => "1/1",
                    1 => if rng.chance(1, 2) { "0/1" } else { "1|0" },
                    _ => "0/0",
                }
                .to_string();
            }
        }
        K_NEAR_COPY => {
            // filled in by gen_callset from the previous record
        }
        K_PLOIDY_SEL => {
            let i = *rng.pick(&sel);
            gts[i] = ploidy_gt(rng);
        }
        K_PLOIDY_UNSEL => {
            if unsel.is_empty() {
                kind = K_COMPLETE;
            } else {
                let i = *rng.pick(&unsel);
                gts[i] = ploidy_gt(rng);
            }
        }
        _ => {}
    }
    Rec {
        contig,
        pos,
        nalt,
        gts,
        extra_fmt: rng.chance(1, 4),
        kind,
        no_gt: false,
    }
}

/// Repeats the records of a call set at later positions until its VCF text exceeds `target` bytes
/// (inputs longer than a pipe buffer, a BGZF block or any detection prefix).
pub fn pad_callset(callset: &mut CallSet, target: usize) {
    if callset.recs.is_empty() {
        return;
    }
    let per_rec = (callset.to_vcf().len() / callset.recs.len()).max(1);
    let want = (target / per_rec + 1).min(6000);
    let base = callset.recs.clone();
    let mut k = 0;
    while callset.recs.len() < want {
        let mut r = base[k % base.len()].clone();
        r.contig = callset.recs.last().map(|x| x.contig).unwrap_or(0);
        r.pos = callset.recs.last().map(|x| x.pos).unwrap_or(0).saturating_add(1 + (k % 7) as u32);
        callset.recs.push(r);
        k += 1;
    }
}

pub fn gen_callset(rng: &mut Rng, p: &CallSetParams) -> (CallSet, Config) {
    let samples = if p.big_cohort {
        let n = *rng.pick(&[86usize, 87, 90, 100, 128, 129, 171, 172, 256, 300, 520, 600, 1100]);
        (0..n).map(|i| format!("s{i}")).collect()
    } else {
        gen_samples(rng, p.max_samples)
    };
    let mut cfg = gen_config(rng, &samples, p);
    if !p.allow_project {
        cfg.project = None;
    }
    let ncontigs = if rng.chance(1, 10) { rng.range(4, 6) } else { rng.range(1, 3) };
    let nrec = match rng.below(5) {
        0 => rng.range(0, 2.min(p.max_recs)),
        1 => p.max_recs,
        _ => rng.range(0, p.max_recs),
    };
    let mut w = p.kind_w;
    if !p.allow_ploidy {
        w[K_PLOIDY_SEL as usize] = 0;
        w[K_PLOIDY_UNSEL as usize] = 0;
    }
    if !p.allow_multi {
        w[K_MULTI as usize] = 0;
    }
    if !p.allow_missing {
        w[K_SEL_MISSING as usize] = 0;
        w[K_UNSEL_MISSING as usize] = 0;
        w[K_ALL_MISSING as usize] = 0;
        w[K_EXACT as usize] = 0;
        w[K_INSUFF as usize] = 0;
        w[K_FIXED_DIFF as usize] = 0;
        w[K_POP_UNCALLED as usize] = 0;
    }
    if cfg.project.is_none() {
        w[K_EXACT as usize] = 0;
        w[K_INSUFF as usize] = 0;
    }
    // large cohorts: exact counts at table / word-size boundaries are what they are for
    if samples.len() > 64 && w[K_EXACT_COUNT as usize] > 0 {
        w[K_EXACT_COUNT as usize] *= 5;
    }
    // low-diversity stretches: runs of sites that differ from their predecessor in one sample
    if w[K_NEAR_COPY as usize] > 0 && rng.chance(1, 8) {
        w[K_NEAR_COPY as usize] = w.iter().sum::<u32>().max(1);
    }
    let mut recs = vec![];
    let mut contig = 0usize;
    // positions usually start low; now and then close to the 32-bit limits
    let pos_base: u32 = if p.max_recs <= 500 && rng.chance(1, 25) { *rng.pick(&[65_500u32, 16_777_200, 2_147_400_000]) } else { 0 };
    let mut pos = pos_base;
    for i in 0..nrec {
        let mut twin = false;
        if contig + 1 < ncontigs && rng.below((nrec - i) as u64 + 1) == 0 {
            contig += 1;
            pos = pos_base;
            // now and then the new contig starts with the very same position and calls as the record
            // before it (alternative contigs, patches)
            twin = i > 0 && rng.chance(1, 3);
        }
        // positions increase, except that now and then a record shares the position of its
        // predecessor (split multiallelic sites are written that way)
        if !(i > 0 && rng.chance(1, 12)) {
            pos += 1 + rng.below(50) as u32;
        }
        let kind = rng.weighted(&w) as u8;
        let mut rec = gen_rec(rng, kind, &samples, &cfg, contig, pos);
        if kind == K_NEAR_COPY {
            if let Some(prev) = recs.last() {
                let prev: &Rec = prev;
                if !prev.no_gt && prev.gts.iter().all(|g| g.split(|c| c == '/' || c == '|').count() == 2) {
                    rec.gts = prev.gts.clone();
                    rec.nalt = prev.nalt;
                    for _ in 0..rng.range(1, 2) {
                        // any sample; now and then the first one listed (the first axis)
                        let first = cfg.sel.as_ref().and_then(|l| l.first()).and_then(|(s, _)| samples.iter().position(|x| x == s));
                        let col = match first {
                            Some(c) if rng.chance(1, 3) => c,
                            _ => rng.below(samples.len() as u64) as usize,
                        };
                        rec.gts[col] = (*rng.pick(&["0/1", "1/1", "0/0", "1|0"])).to_string();
                    }
                }
            }
        }
        if p.allow_no_gt && rng.chance(1, 14) {
            rec.no_gt = true;
            rec.kind = K_ALL_MISSING;
        }
        if twin {
            if let Some(prev) = recs.last() {
                let prev: &Rec = prev;
                let c = rec.contig;
                rec = prev.clone();
                rec.contig = c;
            }
        }
        recs.push(rec);
    }
    (
        CallSet {
            samples,
            ncontigs,
            extra_info: rng.chance(1, 3),
            recs,
            contig_style: *rng.pick(&[0u8, 0, 0, 0, 0, 0, 1, 1, 2, 2, 3, 3]),
        },
        cfg,
    )
}

const BASES: [&str; 4] = ["A", "C", "G", "T"];

impl CallSet {
    /// the contig's name as the tool reports it
    pub fn contig_name(&self, c: usize) -> String {
        match self.contig_style {
            1 => format!("{}", c + 1),
            2 if c % 2 == 0 => format!("CTG{}", c + 7),
            3 => format!("scaffold_{}.1", c + 12),
            _ => format!("chr{}", c + 1),
        }
    }

    /// what the CHROM column holds (symbolic contigs are written in angle brackets)
    pub fn contig_column(&self, c: usize) -> String {
        match self.contig_style {
            2 if c % 2 == 0 => format!("<{}>", self.contig_name(c)),
            _ => self.contig_name(c),
        }
    }

    pub fn header_text(&self) -> String {
        let mut s = String::new();
        s.push_str("##fileformat=VCFv4.3\n");
        s.push_str("##FILTER=<ID=PASS,Description=\"All filters passed\">\n");
        for c in 0..self.ncontigs {
            s.push_str(&format!("##contig=<ID={},length=2147483647>\n", self.contig_name(c)));
        }
        if self.extra_info {
            s.push_str("##INFO=<ID=DP,Number=1,Type=Integer,Description=\"Total depth\">\n");
        }
        s.push_str("##FORMAT=<ID=GT,Number=1,Type=String,Description=\"Genotype\">\n");
        s.push_str("##FORMAT=<ID=DP,Number=1,Type=Integer,Description=\"Depth\">\n");
        s.push_str("#CHROM\tPOS\tID\tREF\tALT\tQUAL\tFILTER\tINFO\tFORMAT");
        for n in &self.samples {
            s.push('\t');
            s.push_str(n);
        }
        s.push('\n');
        s
    }

    pub fn rec_text(&self, r: &Rec) -> String {
        let refb = BASES[(r.pos as usize) % 4];
        let mut alts: Vec<&str> = (1..=r.nalt as usize).map(|k| BASES[(r.pos as usize + k) % 4]).collect();
        // an invariant site as all-sites call sets write it: no ALT allele at all (`.`), for a third
        // of the records in which no call refers to one (a function of the record, no random draw)
        if r.pos % 3 == 0 && !r.gts.iter().any(|g| g.bytes().any(|b| (b'1'..=b'9').contains(&b))) {
            alts.clear();
        }
        let alt_column = if alts.is_empty() { ".".to_string() } else { alts.join(",") };
        let info = if self.extra_info {
            format!("DP={}", 10 + r.pos % 7)
        } else {
            ".".to_string()
        };
        let mut s = format!(
            "{}\t{}\t.\t{}\t{}\t.\t.\t{}\t{}",
            self.contig_column(r.contig),
            r.pos,
            refb,
            alt_column,
            info,
            if r.no_gt {
                "DP"
            } else if r.extra_fmt {
                "GT:DP"
            } else {
                "GT"
            }
        );
        for (i, g) in r.gts.iter().enumerate() {
            s.push('\t');
            if r.no_gt {
                s.push_str(&format!("{}", 3 + (i + r.pos as usize) % 9));
                continue;
            }
            s.push_str(g);
            if r.extra_fmt {
                s.push_str(&format!(":{}", 3 + (i + r.pos as usize) % 9));
            }
        }
        s.push('\n');
        s
    }

    pub fn to_vcf(&self) -> Vec<u8> {
        let mut s = self.header_text();
        for r in &self.recs {
            s.push_str(&self.rec_text(r));
        }
        s.into_bytes()
    }

    /// byte offsets at which each record line starts (offset of record i), plus total length
    pub fn vcf_record_offsets(&self) -> Vec<usize> {
        let mut off = self.header_text().len();
        let mut v = vec![];
        for r in &self.recs {
            v.push(off);
            off += self.rec_text(r).len();
        }
        v.push(off);
        v
    }
}

// ------------------------------------------------------------------------------------------
// containers
// ------------------------------------------------------------------------------------------

/// Transcodes VCF text to uncompressed BCF with noodles' own writer (trusted base).
pub fn vcf_to_bcf(vcf: &[u8]) -> io::Result<Vec<u8>> {
    // the BCF writer itself is not total (e.g. it cannot encode symbolic contigs): such call sets
    // simply have no BCF encoding
    match crate::l1::guarded(|| vcf_to_bcf_inner(vcf)) {
        Ok(r) => r,
        Err(p) => Err(io::Error::new(io::ErrorKind::Other, format!("BCF writer panicked: {p}"))),
    }
}

fn vcf_to_bcf_inner(vcf: &[u8]) -> io::Result<Vec<u8>> {
    use noodles_bcf as bcf;
    use noodles_vcf as vcf_;
    let mut r = vcf_::Reader::new(vcf);
    let header = r.read_header()?;
    let mut w = bcf::Writer::from(Vec::new());
    w.write_header(&header)?;
    for rec in r.records(&header) {
        let rec = rec?;
        w.write_record(&header, &rec)?;
    }
    let mut raw = w.into_inner();
    htslib_phased_missing(&mut raw, vcf);
    Ok(raw)
}

/// noodles' writer encodes a missing allele as 0x00 also after a '|'; htslib (bcftools), which
/// writes the BCF files met in practice, keeps the phase bit and writes 0x01. The encoder follows
/// htslib here, so that `1|.` in the text is the same call in both containers. Only GT vectors
/// typed 2 x int8 as the first FORMAT field are touched.
fn htslib_phased_missing(raw: &mut [u8], vcf: &[u8]) {
    let offs = bcf_record_offsets(raw);
    let recs: Vec<&[u8]> = vcf.split(|&b| b == b'\n').filter(|l| !l.is_empty() && l[0] != b'#').collect();
    if recs.len() != offs.len() {
        return;
    }
    for (line, &o) in recs.iter().zip(offs.iter()) {
        let cols: Vec<&[u8]> = line.split(|&b| b == b'\t').collect();
        if cols.len() < 10 || !(cols[8] == b"GT" || cols[8].starts_with(b"GT:")) {
            continue;
        }
        let ls = u32::from_le_bytes([raw[o], raw[o + 1], raw[o + 2], raw[o + 3]]) as usize;
        let indiv = o + 8 + ls;
        let nsamples = cols.len() - 9;
        if indiv + 3 + 2 * nsamples > raw.len() || raw[indiv] != 0x11 || raw[indiv + 2] != 0x21 {
            continue;
        }
        for (s, col) in cols[9..].iter().enumerate() {
            let gt = col.split(|&b| b == b':').next().unwrap_or(&[]);
            if gt.len() >= 3 && gt.ends_with(b"|.") && raw[indiv + 3 + 2 * s + 1] == 0x00 {
                raw[indiv + 3 + 2 * s + 1] = 0x01;
            }
        }
    }
}

/// byte offsets of the records of an uncompressed BCF stream
pub fn bcf_record_offsets(raw: &[u8]) -> Vec<usize> {
    // magic(5) l_text(4) text, then records: l_shared(4) l_indiv(4) data
    let mut v = vec![];
    if raw.len() < 9 {
        return v;
    }
    let l_text = u32::from_le_bytes([raw[5], raw[6], raw[7], raw[8]]) as usize;
    let mut off = 9 + l_text;
    while off + 8 <= raw.len() {
        v.push(off);
        let ls = u32::from_le_bytes([raw[off], raw[off + 1], raw[off + 2], raw[off + 3]]) as usize;
        let li = u32::from_le_bytes([raw[off + 4], raw[off + 5], raw[off + 6], raw[off + 7]]) as usize;
        off += 8 + ls + li;
    }
    v
}


pub fn bgzf_block(payload: &[u8], level: u32) -> Vec<u8> {
    use flate2::{write::DeflateEncoder, Compression, Crc};
    let mut enc = DeflateEncoder::new(Vec::new(), Compression::new(level));
    enc.write_all(payload).unwrap();
    let cdata = enc.finish().unwrap();
    let mut crc = Crc::new();
    crc.update(payload);
    let total = 18 + cdata.len() + 8;
    assert!(total <= 65536, "bgzf block too large");
    let mut b = Vec::with_capacity(total);
    b.extend_from_slice(&[0x1f, 0x8b, 0x08, 0x04, 0, 0, 0, 0, 0x00, 0xff, 0x06, 0x00, b'B', b'C', 0x02, 0x00]);
    b.extend_from_slice(&((total - 1) as u16).to_le_bytes());
    b.extend_from_slice(&cdata);
    b.extend_from_slice(&crc.sum().to_le_bytes());
    b.extend_from_slice(&(payload.len() as u32).to_le_bytes());
    b
}

pub const MAX_BGZF_PAYLOAD: usize = 0xff00;

/// Explicit BGZF block layout: payload length of every block (0 = empty block).
#[derive(Clone, Debug, PartialEq, Serialize, Deserialize)]
pub struct Layout {
    pub blocks: Vec<usize>,
    pub eof_marker: bool,
    pub level: u32,
    /// BCF minor version byte written into the magic "BCF\x02\x0?" (0 = leave what the writer
    /// produced, i.e. 2); BCF 2.1 files are read by the same decoder
    #[serde(default)]
    pub bcf_minor: u8,
    /// the header carries no ##contig lines (valid VCF; in BCF the records' CHROM ids then have no
    /// dictionary entry)
    #[serde(default)]
    pub no_contig_lines: bool,
}

/// Frames `data` into BGZF; returns bytes and the offsets at which each block ends.
pub fn bgzf_frame(data: &[u8], layout: &Layout) -> (Vec<u8>, Vec<usize>) {
    let mut out = vec![];
    let mut ends = vec![];
    let mut pos = 0;
    for &n in &layout.blocks {
        let n = n.min(data.len() - pos).min(MAX_BGZF_PAYLOAD);
        out.extend_from_slice(&bgzf_block(&data[pos..pos + n], layout.level));
        ends.push(out.len());
        pos += n;
    }
    while pos < data.len() {
        let n = (data.len() - pos).min(MAX_BGZF_PAYLOAD);
        out.extend_from_slice(&bgzf_block(&data[pos..pos + n], layout.level));
        ends.push(out.len());
        pos += n;
    }
    if layout.eof_marker {
        out.extend_from_slice(&bgzf_block(&[], layout.level));
        ends.push(out.len());
    }
    (out, ends)
}

/// Block layout families: one line per block, fixed sizes 1 byte .. 64 KiB, random cuts,
/// empty blocks in the middle (at most `max_empty_run` consecutive), EOF marker or not.
pub fn gen_layout(rng: &mut Rng, data: &[u8], line_oriented: bool, max_blocks: usize) -> Layout {
    let len = data.len();
    let mut blocks: Vec<usize> = vec![];
    match rng.below(7) {
        0 => blocks.push(len.min(MAX_BGZF_PAYLOAD)), // single block (rest is chunked at max)
        1 if line_oriented => {
            let mut start = 0;
            for (i, &b) in data.iter().enumerate() {
                if b == b'\n' {
                    blocks.push(i + 1 - start);
                    start = i + 1;
                }
            }
            if start < len {
                blocks.push(len - start);
            }
        }
        2 => {
            let sz = *rng.pick(&[1usize, 2, 3, 7, 16, 64, 100, 512, 4096]);
            let mut pos = 0;
            while pos < len {
                blocks.push(sz.min(len - pos));
                pos += sz;
            }
        }
        3 => {
            let mut pos = 0;
            while pos < len {
                let sh = rng.below(12);
                let sz = 1 + rng.below(1 << sh) as usize;
                let sz = sz.min(len - pos);
                blocks.push(sz);
                pos += sz;
            }
        }
        4 => {
            // small first block(s), then large
            let mut pos = 0;
            for _ in 0..rng.range(1, 3) {
                let sz = rng.range(1, 40).min(len - pos);
                if sz == 0 {
                    break;
                }
                blocks.push(sz);
                pos += sz;
            }
        }
        5 => {
            let mut pos = 0;
            while pos < len {
                let sz = MAX_BGZF_PAYLOAD.min(len - pos);
                blocks.push(sz);
                pos += sz;
            }
        }
        _ => {
            let mut pos = 0;
            while pos < len {
                let sz = rng.range(1, 300).min(len - pos);
                blocks.push(sz);
                pos += sz;
            }
        }
    }
    // bound the number of blocks (merge the tail)
    if blocks.len() > max_blocks {
        blocks.truncate(max_blocks);
    }
    // empty blocks in the middle, at most 8 consecutive
    if rng.chance(1, 3) && !blocks.is_empty() {
        for _ in 0..rng.range(1, 3) {
            let at = rng.range(0, blocks.len());
            let run = rng.range(1, 8);
            for _ in 0..run {
                blocks.insert(at, 0);
            }
        }
    }
    Layout {
        blocks,
        eof_marker: !rng.chance(1, 4),
        level: *rng.pick(&[0u32, 1, 6, 6, 9]),
        bcf_minor: if rng.chance(1, 6) { 1 } else { 0 },
        no_contig_lines: false,
    }
}

#[derive(Clone, Copy, Debug, PartialEq, Eq, Serialize, Deserialize)]
pub enum Container {
    Vcf,
    VcfGz,
    Bcf,
    BcfRaw,
}

impl Container {
    pub const ALL: [Container; 4] = [Container::Vcf, Container::VcfGz, Container::Bcf, Container::BcfRaw];
    pub fn name(self) -> &'static str {
        match self {
            Container::Vcf => "vcf",
            Container::VcfGz => "vcf.gz",
            Container::Bcf => "bcf",
            Container::BcfRaw => "raw_bcf",
        }
    }
    pub fn is_bgzf(self) -> bool {
        matches!(self, Container::VcfGz | Container::Bcf)
    }
}

/// Encodes VCF text into the container. Returns (bytes, structural boundaries).
fn strip_contig_lines(text: &[u8]) -> Vec<u8> {
    let mut out = Vec::with_capacity(text.len());
    for line in text.split_inclusive(|&b| b == b'\n') {
        if !line.starts_with(b"##contig=") {
            out.extend_from_slice(line);
        }
    }
    out
}

/// removes the ##contig lines from the header text of a raw BCF stream (l_text adjusted)
fn bcf_strip_contig_lines(raw: &mut Vec<u8>) {
    if raw.len() < 9 {
        return;
    }
    let l_text = u32::from_le_bytes([raw[5], raw[6], raw[7], raw[8]]) as usize;
    if 9 + l_text > raw.len() {
        return;
    }
    let text = strip_contig_lines(&raw[9..9 + l_text]);
    let mut out = raw[..5].to_vec();
    out.extend_from_slice(&(text.len() as u32).to_le_bytes());
    out.extend_from_slice(&text);
    out.extend_from_slice(&raw[9 + l_text..]);
    *raw = out;
}

pub fn encode(vcf: &[u8], container: Container, layout: &Layout) -> io::Result<(Vec<u8>, Vec<usize>)> {
    let stripped;
    let vcf_text: &[u8] = if layout.no_contig_lines && matches!(container, Container::Vcf | Container::VcfGz) {
        stripped = strip_contig_lines(vcf);
        &stripped
    } else {
        vcf
    };
    match container {
        Container::Vcf => {
            let vcf = vcf_text;
            let b: Vec<usize> = vcf
                .iter()
                .enumerate()
                .filter(|(_, &c)| c == b'\n')
                .map(|(i, _)| i + 1)
                .collect();
            Ok((vcf.to_vec(), b))
        }
        Container::VcfGz => Ok(bgzf_frame(vcf_text, layout)),
        Container::Bcf => {
            let mut raw = vcf_to_bcf(vcf)?;
            if layout.bcf_minor != 0 && raw.len() > 5 {
                raw[4] = layout.bcf_minor;
            }
            if layout.no_contig_lines {
                bcf_strip_contig_lines(&mut raw);
            }
            Ok(bgzf_frame(&raw, layout))
        }
        Container::BcfRaw => {
            let mut raw = vcf_to_bcf(vcf)?;
            if layout.bcf_minor != 0 && raw.len() > 5 {
                raw[4] = layout.bcf_minor;
            }
            if layout.no_contig_lines {
                bcf_strip_contig_lines(&mut raw);
            }
            Ok((raw, vec![3, 5, 9]))
        }
    }
}

// ------------------------------------------------------------------------------------------
// spectra
// ------------------------------------------------------------------------------------------

#[derive(Clone, Debug, PartialEq, Serialize, Deserialize)]
pub struct Spec {
    pub shape: Vec<usize>,
    /// f64 bit patterns (JSON cannot carry NaN/inf)
    pub bits: Vec<u64>,
}

impl Spec {
    pub fn vals(&self) -> Vec<f64> {
        self.bits.iter().map(|&b| f64::from_bits(b)).collect()
    }
    pub fn from_vals(shape: Vec<usize>, vals: &[f64]) -> Self {
        Spec {
            shape,
            bits: vals.iter().map(|v| v.to_bits()).collect(),
        }
    }
    pub fn render(&self) -> String {
        format!(
            "shape={:?} vals={:?}",
            self.shape,
            self.vals().iter().take(12).collect::<Vec<_>>()
        )
    }
}

pub fn gen_shape(rng: &mut Rng, max_axes: usize, max_len: usize, max_elems: usize) -> Vec<usize> {
    loop {
        let d = rng.range(1, max_axes);
        let shape: Vec<usize> = (0..d)
            .map(|_| if rng.chance(1, 6) { 1 } else { rng.range(1, max_len) })
            .collect();
        if shape.iter().product::<usize>() <= max_elems {
            return shape;
        }
    }
}

/// A shape with roughly `target` elements spread over 1..=max_axes axes (for size-dependent
/// behaviour such as internal block sizes).
pub fn gen_large_shape(rng: &mut Rng, max_axes: usize, target: usize) -> Vec<usize> {
    let d = rng.range(1, max_axes);
    let side = (target as f64).powf(1.0 / d as f64);
    let mut shape: Vec<usize> = (0..d).map(|_| (side as usize + rng.range(0, 2)).max(1)).collect();
    if d == 1 {
        shape[0] = target + rng.range(0, 3);
    }
    shape
}

pub fn gen_value(rng: &mut Rng, family: u64) -> f64 {
    match family {
        0 => rng.below(1000) as f64,                                  // small counts
        1 => rng.f64(),                                               // fractions
        2 => (rng.below(100000) as f64) / 1000.0,                     // <= 3 decimals
        3 => {
            // anything: specials, huge, subnormal, negative
            match rng.below(12) {
                0 => f64::NAN,
                1 => f64::INFINITY,
                2 => f64::NEG_INFINITY,
                3 => -0.0,
                4 => 0.0,
                5 => f64::from_bits(rng.below(1 << 20) + 1), // subnormal
                6 => 1e300 * rng.f64(),
                7 => -1e300 * rng.f64(),
                8 => f64::from_bits(rng.next_u64()),
                9 => -(rng.below(1000) as f64) - rng.f64(),
                10 => *rng.pick(&[f64::MAX, 9007199254740992.0, 9007199254740993.0, 1e15, 1e16, 999999999999999.9, 16777216.0, 16777217.0, 4294967296.0]),
                _ => f64::MIN_POSITIVE,
            }
        }
        4 => (rng.below(2_000_000) as f64 - 1_000_000.0) / 64.0, // dyadic, exact
        5 => {
            // site counts of realistic size: 10^4 .. 10^10, around 2^24 and 2^31
            match rng.below(5) {
                0 => (16_777_200 + rng.below(40)) as f64,
                1 => (2_147_483_600u64 + rng.below(100)) as f64,
                2 => rng.below(100_000_000) as f64,
                3 => (10_000_000 + rng.below(90_000_000)) as f64,
                _ => rng.below(10_000_000_000) as f64,
            }
        }
        _ => rng.below(10) as f64,
    }
}

pub fn gen_spec(rng: &mut Rng, max_axes: usize, max_len: usize, max_elems: usize, finite_only: bool) -> Spec {
    let shape = gen_shape(rng, max_axes, max_len, max_elems);
    let n: usize = shape.iter().product();
    let mut fam = rng.below(7);
    if finite_only && fam == 3 {
        fam = 1;
    }
    let mixed = rng.chance(1, 4) && !finite_only;
    let vals: Vec<f64> = (0..n)
        .map(|_| {
            let f = if mixed { rng.below(7) } else { fam };
            gen_value(rng, f)
        })
        .collect();
    Spec::from_vals(shape, &vals)
}

// ------------------------------------------------------------------------------------------
// npy images (read side): synthesized the way numpy lays them out
// ------------------------------------------------------------------------------------------

pub const DTYPES: [&str; 10] = ["f4", "f8", "i1", "i2", "i4", "i8", "u1", "u2", "u4", "u8"];

#[derive(Clone, Debug, PartialEq, Serialize, Deserialize)]
pub struct NpySpec {
    pub version: u8,
    pub endian: char, // '<', '>', '|'
    pub dtype: String,
    pub shape: Vec<usize>,
    /// header spelling variant
    pub spelling: u8,
    /// raw element payload seed values (converted per dtype)
    pub raw: Vec<i64>,
}

pub fn dtype_size(dt: &str) -> usize {
    dt[1..].parse().unwrap()
}

pub fn npy_image(s: &NpySpec) -> Vec<u8> {
    let shape_txt = {
        let inner = s.shape.iter().map(|x| x.to_string()).collect::<Vec<_>>();
        match s.spelling % 3 {
            0 => format!("({},)", inner.join(", ")),
            1 => {
                if inner.len() == 1 {
                    format!("({},)", inner[0])
                } else {
                    format!("({})", inner.join(", "))
                }
            }
            _ => format!("({},)", inner.join(",")),
        }
    };
    let descr = format!("{}{}", s.endian, s.dtype);
    let dict = match s.spelling % 4 {
        0 => format!("{{'descr': '{descr}', 'fortran_order': False, 'shape': {shape_txt}, }}"),
        1 => format!("{{\"descr\": \"{descr}\", \"fortran_order\": False, \"shape\": {shape_txt}}}"),
        2 => format!("{{'shape': {shape_txt}, 'fortran_order': False, 'descr': '{descr}', }}"),
        _ => format!("{{ 'descr' : '{descr}' , 'fortran_order' : False , 'shape' : {shape_txt} , }}"),
    };
    let len_bytes = if s.version == 1 { 2 } else { 4 };
    let unpadded = 6 + 2 + len_bytes + dict.len() + 1;
    let pad = (64 - unpadded % 64) % 64;
    let mut out = vec![];
    out.extend_from_slice(b"\x93NUMPY");
    out.push(s.version);
    out.push(0);
    let hlen = dict.len() + pad + 1;
    if s.version == 1 {
        out.extend_from_slice(&(hlen as u16).to_le_bytes());
    } else {
        out.extend_from_slice(&(hlen as u32).to_le_bytes());
    }
    out.extend_from_slice(dict.as_bytes());
    out.extend(std::iter::repeat(b' ').take(pad));
    out.push(b'\n');
    let be = s.endian == '>';
    for &v in &s.raw {
        macro_rules! put {
            ($t:ty) => {{
                let x = v as $t;
                if be {
                    out.extend_from_slice(&x.to_be_bytes())
                } else {
                    out.extend_from_slice(&x.to_le_bytes())
                }
            }};
        }
        match s.dtype.as_str() {
            "f4" => {
                let x = (v as f32) / 8.0;
                if be {
                    out.extend_from_slice(&x.to_be_bytes())
                } else {
                    out.extend_from_slice(&x.to_le_bytes())
                }
            }
            "f8" => {
                let x = (v as f64) / 8.0;
                if be {
                    out.extend_from_slice(&x.to_be_bytes())
                } else {
                    out.extend_from_slice(&x.to_le_bytes())
                }
            }
            "i1" => put!(i8),
            "i2" => put!(i16),
            "i4" => put!(i32),
            "i8" => put!(i64),
            "u1" => put!(u8),
            "u2" => put!(u16),
            "u4" => put!(u32),
            _ => put!(u64),
        }
    }
    out
}

pub fn gen_npy_spec(rng: &mut Rng, max_axes: usize, max_len: usize, max_elems: usize) -> NpySpec {
    let shape = gen_shape(rng, max_axes, max_len, max_elems);
    let n: usize = shape.iter().product();
    let dtype = rng.pick(&DTYPES).to_string();
    let endian = if dtype_size(&dtype) == 1 {
        *rng.pick(&['|', '<', '>'])
    } else {
        *rng.pick(&['<', '>', '<'])
    };
    NpySpec {
        version: *rng.pick(&[1u8, 1, 2, 3]),
        endian,
        dtype,
        shape,
        spelling: rng.below(12) as u8,
        raw: (0..n)
            .map(|_| match rng.below(4) {
                0 => rng.below(256) as i64 - 128,
                1 => rng.next_u64() as i64,
                _ => rng.below(100) as i64,
            })
            .collect(),
    }
}

pub fn hex(bytes: &[u8]) -> String {
    let mut s = String::with_capacity(bytes.len() * 2);
    for b in bytes {
        s.push_str(&format!("{b:02x}"));
    }
    s
}

pub fn unhex(s: &str) -> Vec<u8> {
    (0..s.len() / 2)
        .map(|i| u8::from_str_radix(&s[2 * i..2 * i + 2], 16).unwrap_or(0))
        .collect()
}
