//! C07 — spectrum files round-trip through text and npy; the tool reads what it writes.
//!
//! The elementary storage history "write, then read back", run fault-free (no errors are
//! injected here, so no relaxation made for faults can hide an ordinary bug) but under the
//! same short-write / chunked-read schedules as C18, over byte images (L1) and over real
//! files and pipes between real `sfs` processes (L2).

use std::{io::BufReader, rc::Rc};

use serde::{Deserialize, Serialize};
use serde_json::{json, Value};

use crate::{
    gen::{self, CallSet, CallSetParams, Config, Spec},
    harness::{Ctx, Outcome, Prop, Tier},
    l1::{self, Res},
    l2::{self, Child, Plan, Stdin, Target},
    rng::{fnv1a, fnv_u64, Rng, FNV_INIT},
    simio::{gen_schedule, new_trace, Faults, Schedule, SimRead, SimWrite},
};

#[derive(Clone, Debug, Serialize, Deserialize)]
pub enum Producer {
    /// `sfs view [-O npy] --precision p` of a spectrum file written by the harness
    View { spec: Spec, npy_out: bool, precision: usize },
    /// `sfs fold --precision p`
    Fold { spec: Spec, precision: usize },
    /// `sfs create` of a generated call set
    Create { callset: CallSet, cfg: Config, precision: usize },
}

#[derive(Clone, Debug, Serialize, Deserialize)]
pub enum Case {
    L1 {
        spec: Spec,
        npy: bool,
        precision: usize,
        wsched: Schedule,
        rsched: Schedule,
        bufcap: usize,
    },
    L2 {
        producer: Producer,
        to_file: bool,
        consumer: String, // view | fold | stat
        pipe: bool,
        wr_rest: usize,
        rd_first: usize,
        rd_rest: usize,
        /// the -o target already exists and holds a longer, older spectrum file
        #[serde(default)]
        stale_out: bool,
    },
}

pub struct C07;

fn ulp(x: f64) -> f64 {
    if x == 0.0 || !x.is_finite() {
        return f64::MIN_POSITIVE;
    }
    let b = x.abs().to_bits();
    f64::from_bits(b + 1) - x.abs()
}

/// text tolerance: half a unit of the p-th decimal (plus representation slack)
fn within(x: f64, y: f64, p: usize) -> bool {
    let tol = 0.5 * 10f64.powi(-(p as i32)) * (1.0 + 1e-12) + ulp(x) + ulp(y);
    (x - y).abs() <= tol
}

fn sig_digits_ok(tokens: &str) -> bool {
    // every printed value has at most 15 significant digits
    tokens.split_ascii_whitespace().all(|t| {
        let digits: String = t.chars().filter(|c| c.is_ascii_digit()).collect();
        let trimmed = digits.trim_start_matches('0');
        trimmed.len() <= 15 && !t.contains("inf") && !t.contains("NaN")
    })
}

fn write_via(spec_shape: &[usize], bits: &[u64], npy: bool, precision: usize, sched: &Schedule) -> (Res<()>, Vec<u8>, u64, u64) {
    let trace = new_trace();
    // very large spectra are not written one byte per call (hundreds of thousands of calls add
    // nothing): the schedule's steady-state chunk grows with the size
    let mut sched = sched.clone();
    if bits.len() > 20_000 && sched.rest < 64 {
        sched.rest += 64;
    }
    let sched = &sched;
    let mut w = SimWrite::new(sched.clone(), Faults::none(), trace.clone());
    let scs = l1::scs_from(spec_shape, bits);
    let r = l1::write_spectrum(&mut w, &scs, npy, precision);
    let bytes = w.accepted.borrow().clone();
    let t = trace.borrow();
    (r, bytes, t.sig, t.writes)
}

fn cmp_values(out: &mut Outcome, what: &str, orig: &Spec, got: &(Vec<usize>, Vec<u64>), exact: bool, precision: usize, detail: &str) {
    if got.0 != orig.shape {
        out.violate(
            "roundtrip_shape",
            format!("C07 {what} shape differs"),
            format!("{detail}: wrote shape {:?}, read {:?}", orig.shape, got.0),
        );
        return;
    }
    for (i, (a, b)) in orig.bits.iter().zip(got.1.iter()).enumerate() {
        let (x, y) = (f64::from_bits(*a), f64::from_bits(*b));
        if exact {
            if a != b {
                out.violate(
                    "roundtrip_npy_bits",
                    format!("C07 {what} value bits differ"),
                    format!("{detail}: element {i} wrote {x:e} ({a:#x}) read {y:e} ({b:#x})"),
                );
                return;
            }
        } else if x.is_finite() && !within(x, y, precision) {
            out.violate(
                "roundtrip_text_tolerance",
                format!("C07 {what} value outside half a unit of the last decimal"),
                format!("{detail}: element {i} wrote {x:e} read {y:e} at precision {precision}"),
            );
            return;
        }
    }
}

impl Prop for C07 {
    type Case = Case;
    fn id(&self) -> &'static str {
        "C07"
    }
    fn level(&self) -> &'static str {
        "exploration"
    }
    fn n_cases(&self, tier: Tier) -> u64 {
        match tier {
            Tier::Quick => 16000,
            Tier::Thorough => 240000,
        }
    }

    fn gen(&self, seed: u64, idx: u64, tier: Tier) -> Case {
        let mut rng = Rng::new(seed);
        let thorough = tier == Tier::Thorough;
        let max_elems = if thorough && rng.chance(1, 8) { 4096 } else { 200 };
        if idx % 8 == 7 {
            let precision = rng.range(0, 17);
            let producer = match rng.below(5) {
                0 | 1 => Producer::View {
                    spec: if rng.chance(1, 12) {
                        let target = *rng.pick(&[4095usize, 4097, 5000, 8193, 8193, 20000]);
                        let shape = gen::gen_large_shape(&mut rng, 4, target);
                        let n: usize = shape.iter().product();
                        let vals: Vec<f64> = (0..n).map(|_| gen::gen_value(&mut rng, 2)).collect();
                        Spec::from_vals(shape, &vals)
                    } else {
                        gen::gen_spec(&mut rng, 6, 7, max_elems, false)
                    },
                    npy_out: rng.chance(1, 2),
                    precision,
                },
                2 => Producer::Fold {
                    spec: gen::gen_spec(&mut rng, 4, 6, 200, true),
                    precision,
                },
                _ => {
                    let (callset, cfg) = gen::gen_callset(&mut rng, &CallSetParams::standard(6, 10));
                    Producer::Create { callset, cfg, precision }
                }
            };
            return Case::L2 {
                producer,
                to_file: rng.chance(1, 2),
                consumer: rng.pick(&["view", "view", "fold", "stat"]).to_string(),
                pipe: rng.chance(1, 2),
                wr_rest: *rng.pick(&[0usize, 1, 3, 8, 100]),
                rd_first: rng.range(1, 40),
                rd_rest: *rng.pick(&[1usize, 5, 64, 8192]),
                stale_out: rng.chance(1, 3),
            };
        }
        let mut spec = gen::gen_spec(&mut rng, 6, 7, max_elems, false);
        if rng.chance(1, 25) {
            // large spectra: sizes around and beyond powers of two (internal block sizes)
            let target = *rng.pick(&[1000usize, 4095, 4096, 4097, 4200, 5000, 8191, 8193, 10000, 65535, 65537]);
            let shape = gen::gen_large_shape(&mut rng, 6, target);
            let n: usize = shape.iter().product();
            let fam = *rng.pick(&[0u64, 2, 4]);
            let vals: Vec<f64> = (0..n).map(|_| gen::gen_value(&mut rng, fam)).collect();
            spec = Spec::from_vals(shape, &vals);
        }
        let npy = rng.chance(1, 2);
        let precision = rng.range(0, 17);
        let wsched = gen_schedule(&mut rng, 256, &[10, 64, 128]);
        let rsched = gen_schedule(&mut rng, 256, &[6, 8, 10, 64, 128]);
        Case::L1 {
            spec,
            npy,
            precision,
            wsched,
            rsched,
            bufcap: *rng.pick(&[1usize, 2, 3, 7, 8, 9, 64, 8192]),
        }
    }

    fn run(&self, case: &Case, ctx: &mut Ctx) -> Outcome {
        let mut out = Outcome {
            digest: FNV_INIT,
            ..Default::default()
        };
        match case {
            Case::L1 {
                spec,
                npy,
                precision,
                wsched,
                rsched,
                bufcap,
            } => {
                let (wr, bytes, wsig, wsteps) = write_via(&spec.shape, &spec.bits, *npy, *precision, wsched);
                out.evals += 1;
                out.steps += wsteps;
                out.digest = fnv_u64(out.digest, fnv1a(&bytes));
                let fmt = if *npy { "npy" } else { "text" };
                match wr {
                    Res::Ok(()) => {}
                    Res::Err(e) => {
                        out.violate("write_failed", format!("C07 L1 {fmt} write failed without fault"), format!("{}: {e}", spec.render()));
                        return out;
                    }
                    Res::Panic(p) => {
                        // a panicking writer is reported under its own key (also C17 territory at CLI level)
                        out.violate("write_panicked", format!("C07 L1 {fmt} write panic {}", l1::panic_key(&p)), format!("{}: {p}", spec.render()));
                        return out;
                    }
                }
                let special = spec.bits.iter().any(|b| !f64::from_bits(*b).is_finite());
                out.count(if special { "values.with_nan_or_inf" } else { "values.finite" }, 1);
                out.count(&format!("format.{fmt}"), 1);
                out.count(&format!("axes.{}", spec.shape.len()), 1);
                if spec.bits.len() > 4096 {
                    out.count("size.more_than_4096_entries", 1);
                }
                if *npy {
                    let trace = new_trace();
                    let rd = BufReader::with_capacity(
                        *bufcap,
                        SimRead::new(Rc::new(bytes.clone()), rsched.clone(), Faults::none(), trace.clone()),
                    );
                    let r = l1::read_npy(rd);
                    out.evals += 1;
                    out.steps += trace.borrow().reads;
                    out.sigs.push(fnv_u64(wsig, trace.borrow().sig));
                    out.nontrivial.push(fnv_u64(fnv1a(&bytes), trace.borrow().sig));
                    match r {
                        Res::Ok(got) => cmp_values(&mut out, "L1 npy", spec, &got, true, 0, &spec.render()),
                        Res::Err(e) | Res::Panic(e) => out.violate(
                            "own_file_rejected",
                            "C07 L1 npy written by sfs is rejected by read_npy".into(),
                            format!("{}: {e}", spec.render()),
                        ),
                    }
                } else {
                    ctx.serial += 1;
                    let path = ctx.scratch.join(format!("t{}", ctx.serial % 4));
                    let _ = std::fs::write(&path, &bytes);
                    let r = l1::read_spectrum_file(&path);
                    out.evals += 1;
                    out.steps += 1;
                    out.sigs.push(wsig);
                    out.nontrivial.push(fnv1a(&bytes));
                    match r {
                        Res::Ok(got) => {
                            cmp_values(&mut out, "L1 text", spec, &got, false, *precision, &format!("p={precision} {}", spec.render()));
                            // text -> npy -> text at the same precision reproduces the text
                            let (_, nbytes, _, _) = write_via(&got.0, &got.1, true, 0, &Schedule::oneshot());
                            if let Res::Ok(back) = l1::read_npy(&nbytes[..]) {
                                let (_, text2, _, _) = write_via(&back.0, &back.1, false, *precision, &Schedule::oneshot());
                                out.evals += 2;
                                let body = String::from_utf8_lossy(&bytes).to_string();
                                let tokens = body.split_once('\n').map(|x| x.1.to_string()).unwrap_or_default();
                                if sig_digits_ok(&tokens) {
                                    out.count("text_npy_text.checked", 1);
                                    if text2 != bytes {
                                        out.violate(
                                            "text_npy_text",
                                            "C07 L1 text->npy->text does not reproduce the text".into(),
                                            format!("p={precision} first={:?} second={:?}", crate::harness::truncate(&body, 120), crate::harness::truncate(&String::from_utf8_lossy(&text2), 120)),
                                        );
                                    }
                                } else {
                                    out.count("text_npy_text.skipped_more_than_15_digits", 1);
                                }
                            }
                        }
                        Res::Err(e) | Res::Panic(e) => out.violate(
                            "own_file_rejected",
                            "C07 L1 text written by sfs is rejected by the reader".into(),
                            format!("p={precision} {}: {e}", spec.render()),
                        ),
                    }
                }
            }
            Case::L2 {
                producer,
                to_file,
                consumer,
                pipe,
                wr_rest,
                rd_first,
                rd_rest,
                stale_out,
            } => run_l2(producer, *to_file, consumer, *pipe, *wr_rest, *rd_first, *rd_rest, *stale_out, ctx, &mut out),
        }
        out
    }

    fn shrink(&self, case: &Case) -> Vec<Case> {
        let mut v = vec![];
        match case {
            Case::L1 {
                spec,
                npy,
                precision,
                wsched,
                rsched,
                bufcap,
            } => {
                let mk = |s: Spec, w: &Schedule, r: &Schedule, b: usize| Case::L1 {
                    spec: s,
                    npy: *npy,
                    precision: *precision,
                    wsched: w.clone(),
                    rsched: r.clone(),
                    bufcap: b,
                };
                if !wsched.is_oneshot() {
                    v.push(mk(spec.clone(), &Schedule::oneshot(), rsched, *bufcap));
                }
                if !rsched.is_oneshot() {
                    v.push(mk(spec.clone(), wsched, &Schedule::oneshot(), *bufcap));
                }
                if *bufcap != 8192 {
                    v.push(mk(spec.clone(), wsched, rsched, 8192));
                }
                let n = spec.bits.len();
                if n > 1 {
                    v.push(mk(Spec { shape: vec![n / 2], bits: spec.bits[..n / 2].to_vec() }, wsched, rsched, *bufcap));
                    v.push(mk(Spec { shape: vec![n - n / 2], bits: spec.bits[n / 2..].to_vec() }, wsched, rsched, *bufcap));
                }
                if spec.shape.len() > 1 {
                    v.push(mk(Spec { shape: vec![n], bits: spec.bits.clone() }, wsched, rsched, *bufcap));
                }
                for i in 0..n.min(16) {
                    if spec.bits[i] != 1f64.to_bits() {
                        let mut b = spec.bits.clone();
                        b[i] = 1f64.to_bits();
                        v.push(mk(Spec { shape: spec.shape.clone(), bits: b }, wsched, rsched, *bufcap));
                    }
                }
            }
            Case::L2 {
                producer,
                to_file,
                consumer,
                pipe,
                wr_rest,
                rd_first,
                rd_rest,
                stale_out,
            } => {
                if *wr_rest != 0 || *rd_rest != 65536 {
                    v.push(Case::L2 {
                        producer: producer.clone(),
                        to_file: *to_file,
                        consumer: consumer.clone(),
                        pipe: *pipe,
                        wr_rest: 0,
                        rd_first: *rd_first,
                        rd_rest: 65536,
                        stale_out: *stale_out,
                    });
                }
                if let Producer::View { spec, npy_out, precision } = producer {
                    let n = spec.bits.len();
                    if n > 1 {
                        v.push(Case::L2 {
                            producer: Producer::View {
                                spec: Spec { shape: vec![n / 2], bits: spec.bits[..n / 2].to_vec() },
                                npy_out: *npy_out,
                                precision: *precision,
                            },
                            to_file: *to_file,
                            consumer: consumer.clone(),
                            pipe: *pipe,
                            wr_rest: *wr_rest,
                            rd_first: *rd_first,
                            rd_rest: *rd_rest,
                            stale_out: *stale_out,
                        });
                    }
                }
            }
        }
        v
    }

    fn sample(&self, case: &Case) -> Value {
        match case {
            Case::L1 { spec, npy, precision, wsched, rsched, bufcap } => json!({
                "layer":"L1","history":"write then read back","format": if *npy {"npy"} else {"text"},"precision":precision,
                "spectrum":spec.render(),"write_schedule":wsched,"read_schedule":rsched,"reader_buffer":bufcap}),
            Case::L2 { producer, to_file, consumer, pipe, wr_rest, rd_first, rd_rest, stale_out } => {
                let p = match producer {
                    Producer::View { spec, npy_out, precision } => json!({"cmd":"sfs view","npy_out":npy_out,"precision":precision,"spectrum":spec.render()}),
                    Producer::Fold { spec, precision } => json!({"cmd":"sfs fold","precision":precision,"spectrum":spec.render()}),
                    Producer::Create { callset, cfg, precision } => json!({"cmd":"sfs create","args":cfg.cli_args(),"precision":precision,"records":callset.recs.len()}),
                };
                json!({"layer":"L2","producer":p,"medium": if *to_file {"-o file / redirected file"} else if *pipe {"pipe"} else {"stdout->stdin via file"},
                       "consumer":format!("sfs {consumer}"),"short_writes":wr_rest,"read_chunks":[rd_first, rd_rest],"output_file_preexists_longer":stale_out})
            }
        }
    }

    fn rule(&self) -> String {
        "A case is a spectrum (1..6 axes; values from pools of counts, fractions, dyadic rationals, subnormals, 1e300-scale, negatives, +-0, NaN, +-inf), a format, a precision 0..17 and \
         a write schedule (short writes) + read schedule (chunked reads, reader buffer 1..8192); the history is write-then-read-back (and text->npy->text). Every 8th case is a process-level \
         pipeline producer(create|view|fold) -> {file, pipe} -> consumer(view|fold|stat) with short writes / chunked reads injected by the shim. \
         Distinct non-trivial = distinct (written byte image, read-trace signature) pairs."
            .to_string()
    }

    fn assumptions(&self) -> Vec<String> {
        vec![
            "No errors are injected in this check (fault-free configuration; C16/C18 hold the fault side)".into(),
            "For non-finite values in text only acceptance and shape are demanded (the statement promises nothing more)".into(),
            "Tolerance for text: 0.5*10^-p*(1+1e-12) + ulp(x) + ulp(x')".into(),
            "The byte-for-byte text->npy->text clause is applied only when every printed token has <= 15 significant digits (decided on the printed tokens)".into(),
            "L2 fold/create producers use finite input values so that the consumer-side value comparison is meaningful".into(),
        ]
    }

    fn components(&self) -> Value {
        json!({
            "real": ["write::Builder::write", "Array::read_npy", "read::Builder::read (auto-detection, text parser)", "L2: sfs create/view/fold/stat binaries, kernel pipes and files"],
            "stubbed": ["SimWrite (short-write schedule)", "SimRead (chunk schedule)", "L2: read/write chunking on governed fds"]
        })
    }

    fn expected_probes(&self) -> Vec<&'static str> {
        vec![
            "values.with_nan_or_inf",
            "values.finite",
            "format.npy",
            "format.text",
            "axes.6",
            "text_npy_text.checked",
            "size.more_than_4096_entries",
            "l2.pipeline.pipe",
            "fault.stale_longer_output_file",
            "l2.pipeline.file",
            "l2.consumer.view",
            "l2.consumer.fold",
            "l2.consumer.stat",
        ]
    }
}

#[allow(clippy::too_many_arguments)]
fn run_l2(
    producer: &Producer,
    to_file: bool,
    consumer: &str,
    pipe: bool,
    wr_rest: usize,
    rd_first: usize,
    rd_rest: usize,
    stale_out: bool,
    ctx: &mut Ctx,
    out: &mut Outcome,
) {
    // --- producer
    let (mut args, mut files, stdin, what, in_spec): (Vec<String>, Vec<(String, String)>, Stdin, String, Option<(Spec, bool, usize)>) = match producer {
        Producer::View { spec, npy_out, precision } => {
            let mut v = vec![];
            let _ = l1::write_spectrum(&mut v, &l1::scs_from(&spec.shape, &spec.bits), true, 0);
            let mut a = vec!["view".to_string(), "--precision".into(), precision.to_string()];
            if *npy_out {
                a.push("-O".into());
                a.push("npy".into());
            }
            a.push("@DIR@/in.npy".into());
            (a, vec![("in.npy".into(), gen::hex(&v))], Stdin::Null, "view".into(), Some((spec.clone(), *npy_out, *precision)))
        }
        Producer::Fold { spec, precision } => {
            let mut v = vec![];
            let _ = l1::write_spectrum(&mut v, &l1::scs_from(&spec.shape, &spec.bits), true, 0);
            (
                vec!["fold".into(), "-p".into(), precision.to_string(), "--fill".into(), "zero".into(), "@DIR@/in.npy".into()],
                vec![("in.npy".into(), gen::hex(&v))],
                Stdin::Null,
                "fold".into(),
                None,
            )
        }
        Producer::Create { callset, cfg, precision } => {
            let mut a = vec!["create".to_string()];
            a.extend(cfg.cli_args());
            a.push("--precision".into());
            a.push(precision.to_string());
            a.push("@DIR@/in.vcf".into());
            (a, vec![("in.vcf".into(), gen::hex(&callset.to_vcf()))], Stdin::Null, "create".into(), None)
        }
    };
    let can_o = what != "create";
    let use_o = to_file && can_o;
    let mut plan = Plan {
        wr_rest,
        ..Default::default()
    };
    if use_o {
        // `-o` must precede the positional input
        let pos = args.pop().unwrap();
        args.push("-o".into());
        args.push("@DIR@/out.sfs".into());
        args.push(pos);
        plan.output = Some(Target::File("out.sfs".into()));
        if stale_out {
            // storage history: the target holds an older, longer spectrum (2,000 values, text)
            let old = Spec::from_vals(vec![40, 50], &(0..2000).map(|i| i as f64 + 0.5).collect::<Vec<_>>());
            let mut v = vec![];
            let _ = l1::write_spectrum(&mut v, &l1::scs_from(&old.shape, &old.bits), false, 6);
            files.push(("out.sfs".into(), gen::hex(&v)));
            out.count("fault.stale_longer_output_file", 1);
        }
    } else {
        plan.output = Some(Target::Stdout);
    }
    let child = Child {
        args,
        env: vec![],
        stdin,
        plan: Some(plan),
        files,
    };
    let pr = l2::run_child(ctx, &child);
    let produced = if use_o {
        std::fs::read(pr.dir.join("out.sfs")).unwrap_or_default()
    } else {
        pr.stdout.clone()
    };
    l2::cleanup(&pr);
    out.evals += 1;
    out.count("l2.runs", 1);
    out.steps += pr.events.len() as u64;
    out.digest = fnv_u64(out.digest, pr.digest());
    if l2::inconclusive(&pr) {
        out.inconclusive += 1;
        return;
    }
    if !pr.ok() {
        // producers may legitimately fail (e.g. create with an inadmissible projection); nothing to read back
        out.count(&format!("l2.producer_failed.{what}"), 1);
        return;
    }
    out.count(&format!("l2.producer.{what}"), 1);
    // --- consumer
    let mut cargs: Vec<String> = match consumer {
        "view" => vec!["view".into(), "-O".into(), "npy".into()],
        "fold" => vec!["fold".into(), "-p".into(), "17".into()],
        _ => vec!["stat".into(), "-s".into(), "sum".into()],
    };
    let by_path = to_file;
    let cchild = if by_path {
        cargs.push("@DIR@/x.sfs".into());
        Child {
            args: cargs,
            env: vec![],
            stdin: Stdin::Null,
            plan: Some(Plan {
                input: Some(Target::File("x.sfs".into())),
                rd_chunks: vec![rd_first],
                rd_rest,
                ..Default::default()
            }),
            files: vec![("x.sfs".into(), gen::hex(&produced))],
        }
    } else {
        // the input is sometimes named on the command line although it is not a regular file
        if rd_first % 3 == 0 {
            cargs.push("/dev/stdin".into());
            out.count("l2.consumer_reads_dev_stdin", 1);
        }
        Child {
            args: cargs,
            env: vec![],
            stdin: if pipe && produced.len() < l2::max_pipe_payload() {
                Stdin::Pipe(gen::hex(&produced))
            } else {
                Stdin::File(gen::hex(&produced))
            },
            plan: Some(Plan {
                input: Some(Target::Stdin),
                rd_chunks: vec![rd_first],
                rd_rest,
                ..Default::default()
            }),
            files: vec![],
        }
    };
    let cr = l2::run_child(ctx, &cchild);
    l2::cleanup(&cr);
    out.evals += 1;
    out.count("l2.runs", 1);
    out.steps += cr.events.len() as u64;
    out.digest = fnv_u64(out.digest, cr.digest());
    out.sigs.push(fnv_u64(pr.sig(), cr.sig()));
    out.nontrivial.push(fnv_u64(fnv1a(&produced), cr.sig()));
    out.count(if by_path { "l2.pipeline.file" } else if pipe { "l2.pipeline.pipe" } else { "l2.pipeline.stdin_file" }, 1);
    out.count(&format!("l2.consumer.{consumer}"), 1);
    if l2::inconclusive(&cr) {
        out.inconclusive += 1;
        return;
    }
    if !cr.ok() {
        let key = if cr.panicked() {
            format!("C07 L2 {what}->{consumer} consumer panics on tool-written file")
        } else {
            format!("C07 L2 {what}->{consumer} tool-written file rejected")
        };
        out.violate(
            "tool_rejects_own_output",
            key,
            format!(
                "producer sfs {what} ({} bytes, head {:?}) consumer sfs {consumer}: {} stderr={}",
                produced.len(),
                crate::harness::truncate(&String::from_utf8_lossy(&produced[..produced.len().min(60)]), 60),
                cr.status_class(),
                crate::harness::truncate(&cr.stderr_text(), 300)
            ),
        );
        return;
    }
    // value check through `view -O npy` for the view producer
    if let (Some((spec, npy_out, precision)), "view") = (in_spec, consumer) {
        match l1::read_npy(&cr.stdout[..]) {
            Res::Ok(got) => cmp_values(
                out,
                if npy_out { "L2 view npy" } else { "L2 view text" },
                &spec,
                &got,
                npy_out,
                precision,
                &format!("view|view p={precision} {}", spec.render()),
            ),
            Res::Err(e) | Res::Panic(e) => out.violate(
                "roundtrip_unreadable",
                "C07 L2 consumer npy output unreadable".into(),
                e,
            ),
        }
    }
}
