//! C18 at process level: the real `sfs` binary with chunked / failing reads on stdin or the
//! input file and short / failing writes on stdout or the `-o` file.

use serde::{Deserialize, Serialize};
use serde_json::{json, Value};

use crate::{
    gen::{self, CallSet, CallSetParams, Config, Container, Layout, Spec},
    harness::{Ctx, Outcome, Tier},
    l1,
    l2::{self, Child, ChildResult, Plan, Stdin, Target},
    rng::{fnv_u64, Rng, FNV_INIT},
    simio::{gen_first_chunk, Faults, Schedule},
};

#[derive(Clone, Debug, Serialize, Deserialize)]
pub enum Op {
    Create {
        callset: CallSet,
        cfg: Config,
        container: Container,
        layout: Layout,
        threads: usize,
        by_path: bool,
        pipe: bool,
    },
    View {
        spec: Spec,
        input_npy: bool,
        in_precision: usize,
        cmd: String, // view | fold | stat
        args: Vec<String>,
        by_path: bool,
        out_file: bool,
        /// how the values of a text input are separated: 0 as sfs writes them (one line), 1 one value
        /// per line, 2 tabs, 3 a line break after every third value and a trailing blank line
        #[serde(default)]
        text_sep: u8,
    },
}

#[derive(Clone, Debug, Serialize, Deserialize)]
pub enum Mode {
    Sampled {
        rd_chunks: Vec<usize>,
        rd_rest: usize,
        rd_fail: Vec<(usize, i32)>,
        rd_eintr: Vec<usize>,
        wr_chunks: Vec<usize>,
        wr_rest: usize,
        wr_fail: Vec<(usize, i32)>,
        wr_eintr: Vec<usize>,
    },
    FirstChunk {
        lo: usize,
        hi: usize,
        rest: usize,
    },
    RdFault {
        lo: usize,
        hi: usize,
        stride: usize,
        errno: i32,
    },
    WrFault {
        lo: usize,
        hi: usize,
        stride: usize,
        errno: i32,
        wr_rest: usize,
    },
}

#[derive(Clone, Debug, Serialize, Deserialize)]
pub struct Case {
    pub op: Op,
    pub mode: Mode,
}

pub fn input_bytes(op: &Op) -> Option<(Vec<u8>, Vec<usize>)> {
    match op {
        Op::Create {
            callset,
            container,
            layout,
            ..
        } => gen::encode(&callset.to_vcf(), *container, layout).ok(),
        Op::View {
            spec,
            input_npy,
            in_precision,
            text_sep,
            ..
        } => {
            let scs = l1::scs_from(&spec.shape, &spec.bits);
            let mut v = vec![];
            match l1::write_spectrum(&mut v, &scs, *input_npy, *in_precision) {
                l1::Res::Ok(()) => {
                    if !*input_npy && *text_sep != 0 {
                        // the same values, separated by other whitespace the reader accepts
                        if let Ok(text) = std::str::from_utf8(&v) {
                            if let Some((header, rest)) = text.split_once('\n') {
                                let toks: Vec<&str> = rest.split_ascii_whitespace().collect();
                                let mut body = String::new();
                                for (k, t) in toks.iter().enumerate() {
                                    if k > 0 {
                                        body.push_str(match *text_sep {
                                            1 => "\n",
                                            2 => "\t",
                                            _ => if k % 3 == 0 { "\n" } else { " " },
                                        });
                                    }
                                    body.push_str(t);
                                }
                                let tail = if *text_sep == 3 { "\n\n" } else { "\n" };
                                v = format!("{header}\n{body}{tail}").into_bytes();
                            }
                        }
                    }
                    Some((v, vec![6, 8, 10]))
                }
                _ => None,
            }
        }
    }
}

pub fn gen(rng: &mut Rng, tier: Tier) -> Case {
    let thorough = tier == Tier::Thorough;
    let op = if rng.chance(3, 5) {
        let p = CallSetParams::standard(6, 10);
        let (callset, cfg) = gen::gen_callset(rng, &p);
        let container = *rng.pick(&[Container::Vcf, Container::VcfGz, Container::Bcf, Container::Bcf, Container::BcfRaw]);
        let vcf = callset.to_vcf();
        let payload = if container == Container::Bcf {
            gen::vcf_to_bcf(&vcf).unwrap_or_default()
        } else {
            vcf
        };
        let layout = gen::gen_layout(rng, &payload, container == Container::VcfGz, 32);
        Op::Create {
            callset,
            cfg,
            container,
            layout,
            threads: *rng.pick(&[1usize, 2, 4]),
            by_path: rng.chance(1, 3),
            pipe: rng.chance(1, 2),
        }
    } else {
        let cmd = *rng.pick(&["view", "view", "view", "fold", "stat"]);
        let out_npy = cmd == "view" && rng.chance(1, 2);
        let mut args = vec![];
        match cmd {
            "view" => {
                if out_npy {
                    args.push("-O".to_string());
                    args.push("npy".to_string());
                }
                args.push("--precision".to_string());
                args.push(rng.range(0, 12).to_string());
            }
            "fold" => {
                args.push("-p".to_string());
                args.push(rng.range(0, 12).to_string());
            }
            _ => {
                args.push("-s".to_string());
                args.push((*rng.pick(&["sum", "sum,s", "s,sum,sum"])).to_string());
                if rng.chance(1, 2) {
                    args.push("-H".to_string());
                }
            }
        }
        Op::View {
            spec: if rng.chance(1, 10) {
                // larger than the 64 KiB of one pipe buffer / reader block
                let n = *rng.pick(&[8200usize, 9000, 12000]);
                let vals: Vec<f64> = (0..n).map(|i| (i % 1000) as f64).collect();
                Spec::from_vals(vec![n], &vals)
            } else {
                gen::gen_spec(rng, 3, 5, 60, true)
            },
            input_npy: rng.chance(1, 2),
            in_precision: rng.range(0, 12),
            cmd: cmd.to_string(),
            args,
            by_path: rng.chance(1, 3),
            out_file: cmd != "stat" && rng.chance(1, 3),
            text_sep: if rng.chance(1, 3) { rng.range(1, 3) as u8 } else { 0 },
        }
    };
    let (len, bounds) = input_bytes(&op).map(|(b, x)| (b.len(), x)).unwrap_or((1, vec![]));
    let cap = if thorough { 400 } else { 48 };
    let mode = match rng.below(10) {
        0..=2 => {
            let hi = len.min(cap).max(1);
            // a window of first-chunk lengths; windows move with the seed
            let lo = if len > cap && rng.chance(1, 2) { rng.range(1, len - cap + 1) } else { 1 };
            Mode::FirstChunk {
                lo,
                hi: (lo + hi - 1).min(len),
                rest: *rng.pick(&[1usize, 64, 8192, 65536]),
            }
        }
        3 | 4 => {
            let stride = len / cap + 1;
            Mode::RdFault {
                lo: rng.range(0, stride - 1),
                hi: len,
                stride,
                errno: *rng.pick(&[l2::EIO, l2::ECONNRESET, l2::ETIMEDOUT, l2::EIO]),
            }
        }
        5 | 6 => Mode::WrFault {
            lo: 0,
            hi: 4096,
            stride: 0, // chosen at run time from the output length
            errno: *rng.pick(&[l2::ENOSPC, l2::EIO, l2::EPIPE, l2::EDQUOT]),
            wr_rest: *rng.pick(&[0usize, 1, 5, 64]),
        },
        _ => {
            let first = gen_first_chunk(rng, len, &bounds);
            let mut m = Mode::Sampled {
                rd_chunks: vec![first],
                rd_rest: *rng.pick(&[1usize, 3, 17, 64, 4096, 65536]),
                rd_fail: vec![],
                rd_eintr: vec![],
                wr_chunks: vec![],
                wr_rest: *rng.pick(&[0usize, 0, 1, 2, 7, 100]),
                wr_fail: vec![],
                wr_eintr: vec![],
            };
            if let Mode::Sampled {
                rd_fail,
                rd_eintr,
                wr_fail,
                wr_eintr,
                ..
            } = &mut m
            {
                match rng.below(6) {
                    0 => rd_fail.push((rng.range(0, len), l2::EIO)),
                    1 => rd_eintr.push(rng.range(0, 5)),
                    2 => wr_fail.push((rng.range(0, 200), l2::ENOSPC)),
                    3 => wr_eintr.push(rng.range(0, 5)),
                    _ => {}
                }
            }
            m
        }
    };
    Case { op, mode }
}

fn build_child(op: &Op, bytes: &[u8], plan: Plan) -> Child {
    let hexed = gen::hex(bytes);
    match op {
        Op::Create {
            cfg,
            threads,
            by_path,
            pipe,
            ..
        } => {
            let mut args = vec!["create".to_string()];
            args.extend(cfg.cli_args());
            args.push("-t".into());
            args.push(threads.to_string());
            let mut plan = plan;
            // create always writes its spectrum to stdout: short writes and write errors apply
            plan.output = Some(Target::Stdout);
            if *by_path {
                args.push("@DIR@/in.dat".into());
                plan.input = Some(Target::File("in.dat".into()));
                Child {
                    args,
                    env: vec![],
                    stdin: Stdin::Null,
                    plan: Some(plan),
                    files: vec![("in.dat".into(), hexed)],
                }
            } else {
                plan.input = Some(Target::Stdin);
                Child {
                    args,
                    env: vec![],
                    stdin: if *pipe && bytes.len() < l2::max_pipe_payload() {
                        Stdin::Pipe(hexed)
                    } else {
                        Stdin::File(hexed)
                    },
                    plan: Some(plan),
                    files: vec![],
                }
            }
        }
        Op::View {
            cmd,
            args,
            by_path,
            out_file,
            ..
        } => {
            let mut a = vec![cmd.clone()];
            a.extend(args.iter().cloned());
            let mut plan = plan;
            if *out_file {
                a.push("-o".into());
                a.push("@DIR@/out.sfs".into());
                plan.output = Some(Target::File("out.sfs".into()));
            } else {
                plan.output = Some(Target::Stdout);
            }
            if *by_path {
                a.push("@DIR@/in.dat".into());
                plan.input = Some(Target::File("in.dat".into()));
                Child {
                    args: a,
                    env: vec![],
                    stdin: Stdin::Null,
                    plan: Some(plan),
                    files: vec![("in.dat".into(), hexed)],
                }
            } else {
                plan.input = Some(Target::Stdin);
                Child {
                    args: a,
                    env: vec![],
                    stdin: Stdin::File(hexed),
                    plan: Some(plan),
                    files: vec![],
                }
            }
        }
    }
}

fn op_name(op: &Op) -> String {
    match op {
        Op::Create { container, by_path, .. } => format!(
            "create/{}/{}",
            container.name(),
            if *by_path { "path" } else { "stdin" }
        ),
        Op::View {
            cmd,
            input_npy,
            out_file,
            args,
            ..
        } => format!(
            "{cmd}/in={}/out={}{}",
            if *input_npy { "npy" } else { "text" },
            if args.iter().any(|a| a == "npy") { "npy" } else { "text" },
            if *out_file { "/file" } else { "/stdout" }
        ),
    }
}

struct Run {
    res: ChildResult,
    output: Vec<u8>,
}

fn exec(ctx: &mut Ctx, op: &Op, bytes: &[u8], plan: Plan) -> Run {
    let child = build_child(op, bytes, plan);
    let res = l2::run_child(ctx, &child);
    let output = match op {
        Op::View { out_file: true, .. } => std::fs::read(res.dir.join("out.sfs")).unwrap_or_default(),
        _ => res.stdout.clone(),
    };
    l2::cleanup(&res);
    Run { res, output }
}

pub fn run(case: &Case, ctx: &mut Ctx) -> Outcome {
    let mut out = Outcome {
        digest: FNV_INIT,
        ..Default::default()
    };
    let Some((bytes, bounds)) = input_bytes(&case.op) else {
        out.inconclusive += 1;
        return out;
    };
    let name = op_name(&case.op);
    let base = exec(ctx, &case.op, &bytes, Plan::default());
    out.evals += 1;
    out.count("l2.runs", 1);
    out.digest = fnv_u64(out.digest, base.res.digest());
    if l2::inconclusive(&base.res) {
        out.inconclusive += 1;
        return out;
    }
    out.count(&format!("l2.baseline.{}", base.res.status_class()), 1);
    let first_block_end = bounds.iter().copied().find(|&b| b > 28).unwrap_or(bytes.len());
    let is_bgzf = matches!(&case.op, Op::Create { container, .. } if container.is_bgzf());

    let mut judge = |r: &Run, first_chunk: usize, desc: String, out: &mut Outcome| {
        out.evals += 1;
        out.count("l2.runs", 1);
        out.steps += r.res.events.len() as u64;
        out.sigs.push(r.res.sig());
        out.digest = fnv_u64(out.digest, r.res.digest());
        if l2::inconclusive(&r.res) {
            out.inconclusive += 1;
            return;
        }
        for e in &r.res.events {
            if e.ret < 0 {
                out.count(&format!("fault.l2.{}{}", if e.op == 'r' { "read.errno" } else { "write.errno" }, e.err), 1);
            }
            if e.op == 'k' {
                out.count("fault.l2.kill", 1);
            }
        }
        let same = r.res.code == base.res.code && r.res.signal == base.res.signal && r.output == base.output;
        let detail = || {
            format!(
                "{desc} ; base={} got={} stderr={}",
                base.res.status_class(),
                r.res.status_class(),
                crate::harness::truncate(&r.res.stderr_text(), 300)
            )
        };
        if r.res.rd_err_fired() {
            out.count("r2_checked", 1);
            if r.res.ok() {
                out.violate(
                    "R2_read_error_swallowed",
                    format!("L2 R2 {name} read error fired but exit 0"),
                    detail(),
                );
            }
            return;
        }
        if r.res.wr_err_fired() {
            out.count("w2_checked", 1);
            if r.res.ok() {
                out.violate(
                    "W2_write_error_swallowed",
                    format!("L2 W2 {name} write error fired but exit 0"),
                    detail(),
                );
            }
            if !base.output.starts_with(&r.output) {
                out.violate(
                    "W2_not_a_prefix",
                    format!("L2 W2 {name} output is not a prefix of the fault-free output"),
                    detail(),
                );
            }
            return;
        }
        if r.res.eintr_fired() {
            out.count("eintr_checked", 1);
            if !(same || !r.res.ok()) {
                out.violate(
                    "R1_eintr_changes_result",
                    format!("L2 R1 {name} eintr changes successful result"),
                    detail(),
                );
            }
            return;
        }
        out.count("r1_checked", 1);
        out.count("w1_checked", 1);
        if !same {
            let fcc = if is_bgzf {
                if first_chunk < first_block_end {
                    "lt_first_block"
                } else {
                    "ge_first_block"
                }
            } else if first_chunk < 3 {
                "lt_3"
            } else {
                "ge_3"
            };
            let key = if r.res.panicked() {
                format!("L2 R1 {name} panic")
            } else {
                format!(
                    "L2 R1 {name} first_chunk={fcc} base={} got={}",
                    base.res.status_class(),
                    r.res.status_class()
                )
            };
            out.violate("R1_schedule_dependence", key, detail());
        }
    };

    match &case.mode {
        Mode::Sampled {
            rd_chunks,
            rd_rest,
            rd_fail,
            rd_eintr,
            wr_chunks,
            wr_rest,
            wr_fail,
            wr_eintr,
        } => {
            let plan = Plan {
                rd_chunks: rd_chunks.clone(),
                rd_rest: *rd_rest,
                rd_fail: rd_fail.clone(),
                rd_eintr: rd_eintr.clone(),
                wr_chunks: wr_chunks.clone(),
                wr_rest: *wr_rest,
                wr_fail: wr_fail.clone(),
                wr_eintr: wr_eintr.clone(),
                ..Default::default()
            };
            let r = exec(ctx, &case.op, &bytes, plan);
            let first = rd_chunks.first().copied().unwrap_or(*rd_rest);
            judge(&r, first, format!("{name} mode={:?}", case.mode), &mut out);
            out.nontrivial.push(fnv_u64(r.res.sig(), base.res.digest()));
        }
        Mode::FirstChunk { lo, hi, rest } => {
            for first in *lo..=(*hi).min(bytes.len().max(1)) {
                let plan = Plan {
                    rd_chunks: vec![first],
                    rd_rest: *rest,
                    ..Default::default()
                };
                let r = exec(ctx, &case.op, &bytes, plan);
                judge(&r, first, format!("{name} first_chunk={first} rest={rest}"), &mut out);
                out.nontrivial.push(fnv_u64(fnv_u64(base.res.digest(), first as u64), *rest as u64));
                out.count(if first < 18 { "first_chunk.lt18" } else { "first_chunk.ge18" }, 1);
                if first < 2 {
                    out.count("first_chunk.lt2", 1);
                }
                if first >= first_block_end {
                    out.count("first_chunk.ge_first_unit", 1);
                }
            }
        }
        Mode::RdFault { lo, hi, stride, errno } => {
            let mut k = *lo;
            while k <= (*hi).min(bytes.len()) {
                let plan = Plan {
                    rd_fail: vec![(k, *errno)],
                    ..Default::default()
                };
                let r = exec(ctx, &case.op, &bytes, plan);
                judge(&r, usize::MAX, format!("{name} rd.fail at={k} errno={errno}"), &mut out);
                out.nontrivial.push(fnv_u64(fnv_u64(base.res.digest(), k as u64), *errno as u64));
                k += (*stride).max(1);
            }
        }
        Mode::WrFault {
            lo,
            hi,
            stride,
            errno,
            wr_rest,
        } => {
            let olen = base.output.len();
            let cap = if ctx.tier == Tier::Thorough { 300 } else { 40 };
            let stride = if *stride > 0 { *stride } else { olen / cap + 1 };
            let mut k = *lo;
            while k <= (*hi).min(olen) {
                let plan = Plan {
                    wr_fail: vec![(k, *errno)],
                    wr_rest: *wr_rest,
                    ..Default::default()
                };
                let r = exec(ctx, &case.op, &bytes, plan);
                judge(&r, usize::MAX, format!("{name} wr.fail at={k} of {olen} errno={errno} wr_rest={wr_rest}"), &mut out);
                out.nontrivial.push(fnv_u64(fnv_u64(base.res.digest(), k as u64), *errno as u64 + 1000));
                k += stride;
            }
        }
    }
    out
}

pub fn shrink(case: &Case) -> Vec<Case> {
    let mut v = vec![];
    match &case.mode {
        Mode::FirstChunk { lo, hi, rest } => {
            if lo < hi {
                let mid = (lo + hi) / 2;
                v.push(Case { op: case.op.clone(), mode: Mode::FirstChunk { lo: *lo, hi: mid, rest: *rest } });
                v.push(Case { op: case.op.clone(), mode: Mode::FirstChunk { lo: mid + 1, hi: *hi, rest: *rest } });
            }
        }
        Mode::RdFault { lo, hi, stride, errno } => {
            if lo + stride <= *hi {
                let span = (hi - lo) / stride;
                let mid = lo + (span / 2) * stride;
                v.push(Case { op: case.op.clone(), mode: Mode::RdFault { lo: *lo, hi: mid, stride: *stride, errno: *errno } });
                v.push(Case { op: case.op.clone(), mode: Mode::RdFault { lo: mid + stride, hi: *hi, stride: *stride, errno: *errno } });
            }
        }
        Mode::WrFault { lo, hi, stride, errno, wr_rest } => {
            let st = (*stride).max(1);
            if lo + st <= *hi {
                let mid = lo + ((hi - lo) / st / 2) * st;
                v.push(Case { op: case.op.clone(), mode: Mode::WrFault { lo: *lo, hi: mid, stride: *stride, errno: *errno, wr_rest: *wr_rest } });
                v.push(Case { op: case.op.clone(), mode: Mode::WrFault { lo: mid + st, hi: *hi, stride: *stride, errno: *errno, wr_rest: *wr_rest } });
            }
        }
        Mode::Sampled { .. } => {}
    }
    // simplify the workload
    match &case.op {
        Op::Create {
            callset,
            cfg,
            container,
            layout,
            threads,
            by_path,
            pipe,
        } => {
            for (cs, c) in super::c18::shrink_callset(callset, cfg) {
                v.push(Case {
                    op: Op::Create {
                        callset: cs,
                        cfg: c,
                        container: *container,
                        layout: layout.clone(),
                        threads: *threads,
                        by_path: *by_path,
                        pipe: *pipe,
                    },
                    mode: case.mode.clone(),
                });
            }
            if *threads != 1 {
                v.push(Case {
                    op: Op::Create {
                        callset: callset.clone(),
                        cfg: cfg.clone(),
                        container: *container,
                        layout: layout.clone(),
                        threads: 1,
                        by_path: *by_path,
                        pipe: *pipe,
                    },
                    mode: case.mode.clone(),
                });
            }
        }
        Op::View {
            spec,
            input_npy,
            in_precision,
            cmd,
            args,
            by_path,
            out_file,
            text_sep,
        } => {
            if spec.bits.len() > 1 {
                let n = spec.bits.len() / 2;
                v.push(Case {
                    op: Op::View {
                        spec: Spec {
                            shape: vec![n],
                            bits: spec.bits[..n].to_vec(),
                        },
                        input_npy: *input_npy,
                        in_precision: *in_precision,
                        cmd: cmd.clone(),
                        args: args.clone(),
                        by_path: *by_path,
                        out_file: *out_file,
                        text_sep: *text_sep,
                    },
                    mode: case.mode.clone(),
                });
            }
        }
    }
    v
}

pub fn sample(case: &Case) -> Value {
    let op = match &case.op {
        Op::Create {
            callset,
            cfg,
            container,
            threads,
            by_path,
            pipe,
            ..
        } => json!({"cmd":"sfs create","args":cfg.cli_args(),"container":container.name(),"records":callset.recs.len(),
            "threads":threads,"transport": if *by_path {"path"} else if *pipe {"stdin(pipe)"} else {"stdin(file)"}}),
        Op::View {
            spec,
            cmd,
            args,
            input_npy,
            by_path,
            out_file,
            ..
        } => json!({"cmd":format!("sfs {cmd}"),"args":args,"input_format": if *input_npy {"npy"} else {"text"},
            "shape":spec.shape,"transport": if *by_path {"path"} else {"stdin"},"output": if *out_file {"-o file"} else {"stdout"}}),
    };
    json!({"layer":"L2","op":op,"mode":case.mode})
}

#[allow(dead_code)]
fn _unused(_: &Schedule, _: &Faults) {}
