//! C12 — output depends only on call data, not container, transport, threads or run.
//!
//! Determinism across configurations: per workload, a set of executions that differ only in
//! container, BGZF block layout, transport, `--threads`, hash seed (getrandom is simulated),
//! environment and repetition must give byte-identical stdout and the same exit status as
//! the canonical execution (plain VCF, by path, one thread).

use std::{io::BufReader, rc::Rc};

use serde::{Deserialize, Serialize};
use serde_json::{json, Value};

use crate::{
    gen::{self, CallSet, CallSetParams, Config, Container, Layout},
    harness::{Ctx, Outcome, Prop, Tier},
    l1::{self, Res},
    l2::{self, Child, Plan, Stdin},
    rng::{fnv1a, fnv_u64, Rng, FNV_INIT},
    simio::{new_trace, Faults, Schedule, SimRead},
};

#[derive(Clone, Copy, Debug, PartialEq, Serialize, Deserialize)]
pub enum Transport {
    Path,
    StdinFile,
    StdinPipe,
    /// stdin whose reads are chunked by the shim (first chunk, then `rest`)
    StdinChunked,
    /// the path argument is /dev/stdin (not a regular file) with stdin redirected from a pipe
    DevStdin,
}

#[derive(Clone, Debug, Serialize, Deserialize)]
pub struct Variant {
    /// the dimension this variant is meant to perturb (finding key component)
    pub label: String,
    pub l1: bool,
    pub container: Container,
    pub layout: Layout,
    pub transport: Transport,
    pub threads: usize,
    pub hashseed: u64,
    pub env: Vec<(String, String)>,
    pub subdir: bool,
    /// name of the input file when given by path (its extension may contradict the content)
    #[serde(default)]
    pub filename: Option<String>,
    /// chunk schedule for Transport::StdinChunked
    #[serde(default)]
    pub rd_first: usize,
    #[serde(default)]
    pub rd_rest: usize,
}

#[derive(Clone, Debug, Serialize, Deserialize)]
pub struct Case {
    pub callset: CallSet,
    pub cfg: Config,
    pub variants: Vec<Variant>,
}

pub struct C12;

fn default_layout() -> Layout {
    Layout {
        blocks: vec![],
        eof_marker: true,
        level: 6,
    bcf_minor: 0, no_contig_lines: false,
    }
}

const ENVS: [(&str, &[&str]); 18] = [
    ("RUST_BACKTRACE", &["1", "full"]),
    ("CLICOLOR_FORCE", &["1"]),
    ("USER", &["nobody"]),
    ("PWD", &["/"]),
    ("TMPDIR", &["/nonexistent"]),
    ("RAYON_NUM_THREADS", &["1", "7"]),
    ("SFS_THREADS", &["1", "9"]),
    ("NUM_THREADS", &["3"]),
    ("SIMIO_ARGV0", &["create", "sfs2", "view"]),
    ("RUST_LOG", &["trace", "off", "sfs=debug"]),
    ("LANG", &["de_DE.UTF-8", "C", "tr_TR.UTF-8"]),
    ("LC_ALL", &["C", "fr_FR.UTF-8"]),
    ("LC_NUMERIC", &["de_DE.UTF-8"]),
    ("TZ", &["Pacific/Kiritimati", "UTC"]),
    ("NO_COLOR", &["1"]),
    ("TERM", &["dumb", "xterm-256color"]),
    ("COLUMNS", &["20", "400"]),
    ("HOME", &["/nonexistent", "@DIR@"]),
];

fn gen_variant(rng: &mut Rng, payload_vcf: &[u8], l1: bool, thorough: bool) -> Variant {
    let mut v = Variant {
        label: String::new(),
        l1,
        container: Container::Vcf,
        layout: default_layout(),
        transport: Transport::Path,
        threads: 1,
        hashseed: 1,
        env: vec![],
        subdir: false,
        filename: None,
        rd_first: 0,
        rd_rest: 0,
    };
    let max_blocks = if thorough { 400 } else { 64 };
    let pick_container = |rng: &mut Rng| *rng.pick(&[Container::VcfGz, Container::Bcf, Container::BcfRaw, Container::VcfGz, Container::Bcf]);
    let layout_for = |rng: &mut Rng, c: Container| -> Layout {
        match c {
            Container::VcfGz => gen::gen_layout(rng, payload_vcf, true, max_blocks),
            Container::Bcf => {
                let raw = gen::vcf_to_bcf(payload_vcf).unwrap_or_default();
                gen::gen_layout(rng, &raw, false, max_blocks)
            }
            _ => default_layout(),
        }
    };
    let dim = if l1 { *rng.pick(&[0u64, 1, 2, 3, 5, 5]) } else { rng.below(9) };
    match dim {
        0 => {
            v.label = "container".into();
            v.container = pick_container(rng);
            if rng.chance(1, 4) {
                // a header without ##contig lines: valid VCF, and in BCF the records' CHROM ids have
                // no dictionary entry (files not written by htslib)
                v.layout.no_contig_lines = true;
            }
            if matches!(v.container, Container::Bcf | Container::BcfRaw) && rng.chance(1, 3) {
                // BCF 2.1 instead of 2.2: same records, same decoder
                v.layout.bcf_minor = 1;
            }
        }
        1 => {
            v.label = "layout".into();
            v.container = *rng.pick(&[Container::VcfGz, Container::Bcf]);
            v.layout = layout_for(rng, v.container);
            if rng.chance(1, 10) {
                // a long run of empty blocks (valid BGZF; e.g. flushes of an idle writer): lengths
                // around what fits into 8 KiB and 64 KiB of input, before or after the first block
                let run = *rng.pick(&[100usize, 292, 293, 600, 2338, 2339, 2340, 2400, 5000]);
                let at = if rng.chance(1, 2) { 0 } else { 1.min(v.layout.blocks.len()) };
                for _ in 0..run {
                    v.layout.blocks.insert(at, 0);
                }
            }
        }
        2 => {
            v.label = "threads".into();
            v.container = *rng.pick(&[Container::VcfGz, Container::Bcf]);
            v.layout = layout_for(rng, v.container);
            v.threads = rng.range(2, 16);
        }
        3 => {
            v.label = "threads_plain".into();
            v.container = *rng.pick(&[Container::Vcf, Container::BcfRaw]);
            v.threads = rng.range(2, 16);
        }
        4 => {
            v.label = "transport".into();
            v.container = *rng.pick(&Container::ALL);
            v.layout = layout_for(rng, v.container);
            v.transport = *rng.pick(&[Transport::StdinFile, Transport::StdinPipe, Transport::StdinChunked, Transport::StdinChunked, Transport::DevStdin]);
            v.rd_first = *rng.pick(&[1usize, 2, 3, 5, 17, 18, 19, 29, 64, 300]);
            v.rd_rest = *rng.pick(&[1usize, 7, 64, 4096, 65536]);
            v.threads = *rng.pick(&[1usize, 4]);
        }
        5 => {
            v.label = "hashseed".into();
            v.hashseed = rng.next_u64() >> 1;
            if rng.chance(1, 2) {
                v.container = pick_container(rng);
            }
        }
        6 => {
            v.label = "environment".into();
            for _ in 0..rng.range(1, 4) {
                let (k, vals) = rng.pick(&ENVS);
                let val = rng.pick(vals);
                if !v.env.iter().any(|(kk, _)| kk == k) {
                    v.env.push((k.to_string(), val.to_string()));
                }
            }
            v.subdir = rng.chance(1, 2);
        }
        8 => {
            v.label = "filename".into();
            v.container = *rng.pick(&Container::ALL);
            v.layout = layout_for(rng, v.container);
            v.filename = Some(
                (*rng.pick(&["in.vcf", "in.bcf", "in.vcf.gz", "in.bcf.gz", "IN.VCF", "data.txt", "in", "in.gz", "x.vcf.bcf", "a b.vcf"])).to_string(),
            );
        }
        _ => {
            v.label = "repeat".into();
            v.hashseed = rng.next_u64() >> 1;
            v.threads = *rng.pick(&[1usize, 4]);
            v.container = *rng.pick(&Container::ALL);
            v.layout = layout_for(rng, v.container);
        }
    }
    v
}

fn exec_l1(bytes: Vec<u8>, cfg: &Config, threads: usize, hashseed: u64) -> (Res<(Vec<usize>, Vec<u64>)>, u64) {
    // the execution runs in a fresh thread whose RandomState keys derive from `hashseed`
    crate::hashseed::with_seed(hashseed, move || exec_l1_inner(bytes, cfg, threads))
}

fn exec_l1_inner(bytes: Vec<u8>, cfg: &Config, threads: usize) -> (Res<(Vec<usize>, Vec<u64>)>, u64) {
    // exactly what Input::open gives a file: BufReader (8 KiB) over a reader that delivers
    // everything it is asked for; reader buffering is not a C12 dimension (it is C18's)
    let trace = new_trace();
    let raw = SimRead::new(Rc::new(bytes), Schedule::oneshot(), Faults::none(), trace.clone());
    let out = l1::create_from_bufread(BufReader::with_capacity(8192, raw), cfg, threads);
    let steps = trace.borrow().reads;
    (out.result, steps)
}

fn exec_l2(ctx: &mut Ctx, cfg: &Config, bytes: &[u8], v: &Variant) -> l2::ChildResult {
    let mut args = vec!["create".to_string()];
    args.extend(cfg.cli_args());
    if cfg.project.is_some() {
        args.push("--precision".into());
        args.push("9".into());
    }
    args.push("-t".into());
    args.push(v.threads.to_string());
    let mut plan = Plan {
        hashseed: Some(v.hashseed),
        ..Default::default()
    };
    let hexed = gen::hex(bytes);
    let (stdin, files) = match v.transport {
        Transport::Path => {
            let name = v.filename.clone().unwrap_or_else(|| "in.dat".to_string());
            args.push(if v.subdir { format!("../{name}") } else { format!("@DIR@/{name}") });
            (Stdin::Null, vec![(name, hexed)])
        }
        Transport::StdinFile => (Stdin::File(hexed), vec![]),
        Transport::StdinChunked => {
            plan.input = Some(l2::Target::Stdin);
            plan.rd_chunks = vec![v.rd_first.max(1)];
            plan.rd_rest = v.rd_rest.max(1);
            (Stdin::File(hexed), vec![])
        }
        Transport::DevStdin => {
            args.push("/dev/stdin".to_string());
            if bytes.len() < l2::max_pipe_payload() {
                (Stdin::Pipe(hexed), vec![])
            } else {
                (Stdin::File(hexed), vec![])
            }
        }
        Transport::StdinPipe => {
            if bytes.len() < l2::max_pipe_payload() {
                (Stdin::Pipe(hexed), vec![])
            } else {
                (Stdin::File(hexed), vec![])
            }
        }
    };
    let mut env = v.env.clone();
    if v.subdir {
        env.push(("SIMIO_SUBDIR".into(), "1".into()));
    }
    let child = Child {
        args,
        env,
        stdin,
        plan: Some(plan),
        files,
    };
    let r = if v.subdir && v.transport == Transport::Path {
        l2::run_child_in_subdir(ctx, &child)
    } else {
        l2::run_child(ctx, &child)
    };
    l2::cleanup(&r);
    r
}

impl Prop for C12 {
    type Case = Case;
    fn id(&self) -> &'static str {
        "C12"
    }
    fn isolate(&self) -> bool {
        true
    }
    fn level(&self) -> &'static str {
        "exploration"
    }
    fn n_cases(&self, tier: Tier) -> u64 {
        match tier {
            Tier::Quick => 1500,
            Tier::Thorough => 20000,
        }
    }

    fn gen(&self, seed: u64, _idx: u64, tier: Tier) -> Case {
        let mut rng = Rng::new(seed);
        let thorough = tier == Tier::Thorough;
        let big = thorough && rng.chance(1, 10);
        // now and then an input larger than the 8 KiB reader buffer / the 64 KiB pipe and BGZF limits
        let mid = !big && rng.chance(1, 25);
        let mut p = CallSetParams::standard(if big { 40 } else if mid { 30 } else { 10 }, if big { 2500 } else if mid { 700 } else { 30 });
        p.allow_strict = true;
        p.allow_ploidy = false;
        let (callset, cfg) = gen::gen_callset(&mut rng, &p);
        let vcf = callset.to_vcf();
        let n_l2 = if big || mid { 6 } else { 9 };
        let n_l1 = if big || mid { 4 } else { 10 };
        let mut variants = vec![];
        for _ in 0..n_l2 {
            variants.push(gen_variant(&mut rng, &vcf, false, thorough));
        }
        if vcf.len() > 65536 {
            // beyond the detection prefix / one pipe buffer: every transport for the plain file
            for t in [Transport::DevStdin, Transport::StdinPipe, Transport::StdinChunked] {
                let mut v = gen_variant(&mut rng, &vcf, false, thorough);
                v.label = "transport".into();
                v.container = Container::Vcf;
                v.layout = default_layout();
                v.transport = t;
                v.rd_first = *rng.pick(&[1usize, 1000, 65535, 65536, 65537]);
                v.rd_rest = *rng.pick(&[4096usize, 65536, 100_000]);
                v.filename = None;
                variants.push(v);
            }
        }
        for _ in 0..n_l1 {
            variants.push(gen_variant(&mut rng, &vcf, true, thorough));
        }
        Case { callset, cfg, variants }
    }

    fn run(&self, case: &Case, ctx: &mut Ctx) -> Outcome {
        let mut out = Outcome {
            digest: FNV_INIT,
            ..Default::default()
        };
        let vcf = case.callset.to_vcf();
        let canon_v = Variant {
            label: "canonical".into(),
            l1: false,
            container: Container::Vcf,
            layout: default_layout(),
            transport: Transport::Path,
            threads: 1,
            hashseed: 1,
            env: vec![],
            subdir: false,
            filename: None,
            rd_first: 0,
            rd_rest: 0,
        };
        let has_l2 = case.variants.iter().any(|v| !v.l1);
        let has_l1 = case.variants.iter().any(|v| v.l1);
        let canon2 = if has_l2 {
            let r = exec_l2(ctx, &case.cfg, &vcf, &canon_v);
            out.evals += 1;
            out.count("l2.runs", 1);
            out.digest = fnv_u64(out.digest, r.digest());
            if l2::inconclusive(&r) {
                out.inconclusive += 1;
                return out;
            }
            out.count(&format!("canonical.{}", r.status_class()), 1);
            Some(r)
        } else {
            None
        };
        let canon1 = if has_l1 {
            let (r, steps) = exec_l1(vcf.clone(), &case.cfg, 1, 1);
            out.evals += 1;
            out.steps += steps;
            Some(r)
        } else {
            None
        };
        for v in &case.variants {
            let Ok((bytes, _)) = gen::encode(&vcf, v.container, &v.layout) else {
                out.inconclusive += 1;
                continue;
            };
            out.nontrivial.push(fnv_u64(fnv1a(&bytes), fnv1a(format!("{:?}{}{:?}{}{:?}{:?}", v.transport, v.threads, v.env, v.hashseed, v.l1, v.filename).as_bytes())));
            out.count(&format!("variant.{}.{}", if v.l1 { "l1" } else { "l2" }, v.label), 1);
            out.count(&format!("container.{}", v.container.name()), 1);
            if v.layout.blocks.iter().any(|&b| b == 0) {
                out.count("layout.with_empty_blocks", 1);
            }
            if v.layout.blocks.len() > 8 {
                out.count("layout.many_blocks", 1);
            }
            if v.threads > 1 && v.container.is_bgzf() {
                out.count("threads.multi_on_bgzf", 1);
            }
            if bytes.len() > 65536 {
                out.count("input.larger_than_64KiB", 1);
            } else if bytes.len() > 8192 {
                out.count("input.larger_than_8KiB", 1);
            }
            if v.env.iter().any(|(k, _)| k == "SIMIO_ARGV0") {
                out.count("variant.l2.argv0", 1);
            }
            out.sigs.push(fnv1a(format!("{}/{}/{:?}/{}/{}", v.container.name(), v.layout.blocks.len().min(20), v.transport, v.threads, v.l1).as_bytes()));
            if v.l1 {
                let (r, steps) = exec_l1(bytes, &case.cfg, v.threads, v.hashseed);
                out.evals += 1;
                out.steps += steps;
                let c = canon1.as_ref().unwrap();
                let same = match (c, &r) {
                    (Res::Ok(a), Res::Ok(b)) => a == b,
                    (Res::Err(_), Res::Err(_)) => true,
                    _ => false,
                };
                out.digest = fnv_u64(out.digest, fnv1a(format!("{:?}", r).as_bytes()));
                if !same {
                    out.violate(
                        "configuration_dependence",
                        format!("C12 L1 result differs from canonical: dimension={} container={}", v.label, v.container.name()),
                        format!(
                            "variant {:?} blocks={:?} threads={} : canonical {} vs {} ({})",
                            v.container,
                            &v.layout.blocks[..v.layout.blocks.len().min(12)],
                            v.threads,
                            c.class(),
                            r.class(),
                            match &r {
                                Res::Err(e) | Res::Panic(e) => e.clone(),
                                Res::Ok(_) => "different spectrum".into(),
                            }
                        ),
                    );
                }
            } else {
                let r = exec_l2(ctx, &case.cfg, &bytes, v);
                out.evals += 1;
                out.count("l2.runs", 1);
                out.steps += r.events.len() as u64;
                out.digest = fnv_u64(out.digest, r.digest());
                if l2::inconclusive(&r) {
                    out.inconclusive += 1;
                    continue;
                }
                if r.events.iter().any(|e| e.op == 'g') {
                    out.count("fault.hashseed_injected", 1);
                }
                let c = canon2.as_ref().unwrap();
                if r.code != c.code || r.signal != c.signal || r.stdout != c.stdout {
                    out.violate(
                        "configuration_dependence",
                        format!("C12 L2 output differs from canonical: dimension={} container={}", v.label, v.container.name()),
                        format!(
                            "variant container={} blocks={:?} transport={:?} threads={} hashseed={} env={:?} subdir={}: canonical {} ({} bytes) vs {} ({} bytes) stderr={}",
                            v.container.name(),
                            &v.layout.blocks[..v.layout.blocks.len().min(12)],
                            v.transport,
                            v.threads,
                            v.hashseed,
                            v.env,
                            v.subdir,
                            c.status_class(),
                            c.stdout.len(),
                            r.status_class(),
                            r.stdout.len(),
                            crate::harness::truncate(&r.stderr_text(), 200)
                        ),
                    );
                }
            }
        }
        out
    }

    fn shrink(&self, case: &Case) -> Vec<Case> {
        let mut v = vec![];
        let n = case.variants.len();
        if n > 1 {
            v.push(Case { variants: case.variants[..n / 2].to_vec(), ..case.clone() });
            v.push(Case { variants: case.variants[n / 2..].to_vec(), ..case.clone() });
        } else if n == 1 {
            let x = &case.variants[0];
            // simplify the variant towards the canonical execution, one dimension at a time
            if x.threads != 1 {
                let mut y = x.clone();
                y.threads = 1;
                v.push(Case { variants: vec![y], ..case.clone() });
            }
            if !x.env.is_empty() || x.subdir {
                let mut y = x.clone();
                y.env.clear();
                y.subdir = false;
                v.push(Case { variants: vec![y], ..case.clone() });
            }
            if x.transport != Transport::Path {
                let mut y = x.clone();
                y.transport = Transport::Path;
                v.push(Case { variants: vec![y], ..case.clone() });
            }
            if x.hashseed != 1 {
                let mut y = x.clone();
                y.hashseed = 1;
                v.push(Case { variants: vec![y], ..case.clone() });
            }
            if x.filename.is_some() {
                let mut y = x.clone();
                y.filename = None;
                v.push(Case { variants: vec![y], ..case.clone() });
            }
            if !x.layout.blocks.is_empty() {
                let mut y = x.clone();
                y.layout = default_layout();
                v.push(Case { variants: vec![y], ..case.clone() });
                let mut y = x.clone();
                y.layout.blocks.retain(|&b| b != 0);
                if y.layout.blocks.len() != x.layout.blocks.len() {
                    v.push(Case { variants: vec![y], ..case.clone() });
                }
            }
        }
        for (cs, c) in super::c18::shrink_callset(&case.callset, &case.cfg) {
            // layouts are explicit block lists: keep them only if the variants do not depend on them
            let vars: Vec<Variant> = case
                .variants
                .iter()
                .cloned()
                .map(|mut x| {
                    x.layout.blocks.clear();
                    x
                })
                .collect();
            v.push(Case { callset: cs, cfg: c, variants: vars });
        }
        v
    }

    fn sample(&self, case: &Case) -> Value {
        json!({
            "records": case.callset.recs.len(), "samples": case.callset.samples.len(), "args": case.cfg.cli_args(),
            "canonical": "plain VCF by path, --threads 1, hashseed 1",
            "variants": case.variants.iter().take(6).map(|v| json!({
                "layer": if v.l1 {"L1"} else {"L2"}, "dimension": v.label, "container": v.container.name(),
                "bgzf_blocks": v.layout.blocks.len(), "empty_blocks": v.layout.blocks.iter().filter(|&&b| b==0).count(),
                "transport": format!("{:?}", v.transport), "threads": v.threads, "hashseed": v.hashseed, "env": v.env, "cwd_subdir": v.subdir, "file_name": v.filename})).collect::<Vec<_>>()
        })
    }

    fn rule(&self) -> String {
        "A case is a diploid call set in which every record carries GT (missing / multiallelic genotypes allowed) + a configuration (sample map, optional projection or --strict) and ~19 \
         executions: the canonical one and variants that each perturb one dimension — container {vcf, vcf.gz, bcf, raw bcf}, explicit BGZF block layout (one line per block, 1 byte .. 64 KiB, \
         random cuts, runs of <= 8 empty blocks, EOF marker present/absent, compression level), --threads 1..16, transport {path, stdin from file, stdin from pre-filled pipe}, getrandom-derived \
         hash seed, environment variables and working directory, repetition. L2 variants run the real binary and compare stdout bytes + exit status; L1 variants run container x layout x threads \
         in-process and compare spectrum bits. Distinct non-trivial = distinct (encoded input image, transport, threads, env, hash seed, layer)."
            .to_string()
    }

    fn assumptions(&self) -> Vec<String> {
        vec![
            "SFS_ALLOW_STDIN=1 is set in every run: without it Input::new deliberately refuses 'file argument + non-terminal stdin', the repository's documented behaviour for a TTY-less stdin".into(),
            "Call sets are diploid and every record carries GT (mixed-ploidy BCF padding and GT-less records are legitimately different encodings in the two formats)".into(),
            "Chunking is held benign here (files and pre-filled pipes deliver what is asked for); chunk schedules are C18's dimension".into(),
            "uncontrolled: which noodles-bgzf worker inflates which block and when is decided by the OS; the oracle is insensitive to it by construction, but a violation needing a particular worker interleaving would not be guaranteed to replay".into(),
            "stderr is not compared".into(),
        ]
    }

    fn components(&self) -> Value {
        json!({
            "real": ["sfs create binary (dev profile) incl. Input::open, detection, noodles readers, multi-threaded BGZF reader", "kernel files and pipes", "L1: sfs-core + Runner in-process"],
            "stubbed": ["getrandom(2) (hash seeds are a function of the case)", "child environment / cwd / stdin construction", "harness BGZF framer and noodles-bcf writer produce the containers"],
            "uncontrolled": ["bgzf worker interleaving"]
        })
    }

    fn expected_probes(&self) -> Vec<&'static str> {
        vec![
            "variant.l2.container",
            "variant.l2.layout",
            "variant.l2.threads",
            "variant.l2.transport",
            "variant.l2.hashseed",
            "variant.l2.environment",
            "variant.l2.repeat",
            "variant.l2.filename",
            "input.larger_than_8KiB",
            "variant.l1.layout",
            "layout.with_empty_blocks",
            "layout.many_blocks",
            "threads.multi_on_bgzf",
            "fault.hashseed_injected",
            "container.raw_bcf",
        ]
    }
}
