//! C18 — results do not depend on how the byte stream is chunked; I/O errors surface.
//!
//! L1: real sfs-core readers/writers over `SimRead`/`SimWrite`.  L2 (process level, real
//! binary under the syscall shim) is in `c18_l2`.

use std::{io::BufReader, rc::Rc};

use serde::{Deserialize, Serialize};
use serde_json::{json, Value};

use crate::{
    gen::{self, CallSet, CallSetParams, Config, Container, Layout, NpySpec, Spec},
    harness::{Ctx, Outcome, Prop, Tier},
    l1::{self, Res},
    rng::{fnv1a_add, fnv_u64, Rng, FNV_INIT},
    simio::{gen_schedule, new_trace, ErrKind, Faults, Schedule, SimRead, SimWrite},
};

use super::c18_l2;

#[derive(Clone, Debug, Serialize, Deserialize)]
pub enum Mode {
    /// one explicit schedule + fault plan
    Sampled { sched: Schedule, faults: Faults },
    /// first-chunk length enumerated lo..=hi, later chunks `rest`
    FirstChunkSweep { lo: usize, hi: usize, rest: usize },
    /// a failure of `kind` at every byte offset lo..=hi (step `stride`), under `sched`
    FaultSweep {
        lo: usize,
        hi: usize,
        stride: usize,
        kind: ErrKind,
        sched: Schedule,
    },
}

#[derive(Clone, Debug, Serialize, Deserialize)]
pub enum Work {
    Create {
        callset: CallSet,
        cfg: Config,
        container: Container,
        layout: Layout,
        threads: usize,
    },
    NpyRead {
        npy: NpySpec,
    },
    Write {
        spec: Spec,
        npy: bool,
        precision: usize,
    },
}

#[derive(Clone, Debug, Serialize, Deserialize)]
pub enum Case {
    L1 { work: Work, bufcap: usize, mode: Mode },
    L2(c18_l2::Case),
}

pub struct C18;

pub const BUFCAPS: [usize; 9] = [1, 2, 3, 17, 18, 64, 512, 8192, 65536];

fn gen_faults(rng: &mut Rng, len: usize, write: bool) -> Faults {
    let mut f = Faults::none();
    match rng.below(6) {
        0 => {}
        1 | 2 => {
            let kinds: &[ErrKind] = if write { &ErrKind::WRITE_KINDS } else { &ErrKind::READ_KINDS };
            f.fail.push((rng.range(0, len), *rng.pick(kinds)));
            if rng.chance(1, 5) {
                f.fail.push((rng.range(0, len), *rng.pick(kinds)));
            }
        }
        3 => {
            let start = rng.range(0, 12);
            for i in 0..rng.range(1, 3) {
                f.eintr.push(start + i);
            }
        }
        4 if write => {
            f.zero.push(rng.range(0, 10));
        }
        _ => {
            let kinds: &[ErrKind] = if write { &ErrKind::WRITE_KINDS } else { &ErrKind::READ_KINDS };
            f.fail.push((rng.range(0, len), *rng.pick(kinds)));
            f.eintr.push(rng.range(0, 6));
        }
    }
    f
}

pub fn work_bytes(work: &Work) -> Option<(Vec<u8>, Vec<usize>)> {
    match work {
        Work::Create {
            callset,
            container,
            layout,
            ..
        } => gen::encode(&callset.to_vcf(), *container, layout).ok(),
        Work::NpyRead { npy } => {
            let img = gen::npy_image(npy);
            let hdr = img.len() - npy.raw.len() * gen::dtype_size(&npy.dtype);
            Some((img, vec![6, 8, 10, hdr]))
        }
        Work::Write { .. } => None,
    }
}

#[derive(Clone, Debug, PartialEq)]
pub struct Obs {
    pub res: Res<(Vec<usize>, Vec<u64>)>,
    pub stage: &'static str,
    pub read_err_fired: u64,
    pub eintr_fired: u64,
    pub write_err_fired: u64,
    pub zero_fired: u64,
    pub accepted: Vec<u8>,
    pub digest: u64,
    pub sig: u64,
    pub steps: u64,
    pub aborted: bool,
    pub fired: Vec<(ErrKind, char)>,
    /// bytes returned by the first data-moving read (what detection gets to see)
    pub first_read: usize,
}

pub fn exec_read(work: &Work, bytes: &Rc<Vec<u8>>, bufcap: usize, sched: &Schedule, faults: &Faults) -> Obs {
    let trace = new_trace();
    let raw = SimRead::new(bytes.clone(), sched.clone(), faults.clone(), trace.clone());
    let rd = BufReader::with_capacity(bufcap.max(1), raw);
    let (res, stage) = match work {
        Work::Create { cfg, threads, .. } => {
            let out = l1::create_from_bufread(rd, cfg, *threads);
            (out.result, out.stage)
        }
        Work::NpyRead { .. } => (l1::read_npy(rd), "read_npy"),
        Work::Write { .. } => unreachable!(),
    };
    let t = trace.borrow();
    t.dump(&format!("read bufcap={bufcap} sched={sched:?} faults={faults:?} -> {}", res.class()));
    let mut digest = t.digest;
    digest = fnv1a_add(digest, res.class().as_bytes());
    if let Res::Ok((shape, bits)) = &res {
        for s in shape {
            digest = fnv_u64(digest, *s as u64);
        }
        for b in bits {
            digest = fnv_u64(digest, *b);
        }
    }
    Obs {
        res,
        stage,
        read_err_fired: t.read_err_fired,
        eintr_fired: t.eintr_fired,
        write_err_fired: 0,
        zero_fired: 0,
        accepted: vec![],
        digest,
        sig: t.sig,
        steps: t.reads,
        aborted: t.aborted,
        fired: t.fired.clone(),
        first_read: t.events.iter().find(|e| e.op == 'r' && e.ret > 0).map(|e| e.ret as usize).unwrap_or(0),
    }
}

pub fn exec_write(spec: &Spec, npy: bool, precision: usize, sched: &Schedule, faults: &Faults) -> Obs {
    let trace = new_trace();
    let mut w = SimWrite::new(sched.clone(), faults.clone(), trace.clone());
    let scs = l1::scs_from(&spec.shape, &spec.bits);
    let r = l1::write_spectrum(&mut w, &scs, npy, precision);
    let accepted = w.accepted.borrow().clone();
    let t = trace.borrow();
    t.dump(&format!("write sched={sched:?} faults={faults:?} -> {}", r.class()));
    let mut digest = t.digest;
    digest = fnv1a_add(digest, r.class().as_bytes());
    digest = fnv1a_add(digest, &accepted);
    let res = match r {
        Res::Ok(()) => Res::Ok((vec![], vec![])),
        Res::Err(e) => Res::Err(e),
        Res::Panic(p) => Res::Panic(p),
    };
    Obs {
        res,
        stage: "write",
        read_err_fired: 0,
        eintr_fired: t.eintr_fired,
        write_err_fired: t.write_err_fired,
        zero_fired: t.zero_fired,
        accepted,
        digest,
        sig: t.sig,
        steps: t.writes,
        aborted: t.aborted,
        fired: t.fired.clone(),
        first_read: t.events.iter().find(|e| e.op == 'r' && e.ret > 0).map(|e| e.ret as usize).unwrap_or(0),
    }
}

fn work_name(work: &Work) -> String {
    match work {
        Work::Create { container, .. } => format!("create/{}", container.name()),
        Work::NpyRead { .. } => "npy_read".to_string(),
        Work::Write { npy, .. } => format!("write/{}", if *npy { "npy" } else { "text" }),
    }
}

/// Class of the first chunk relative to the structure of the input (finding key component).
fn first_chunk_class(first: usize, boundaries: &[usize], len: usize, work: &Work) -> &'static str {
    match work {
        Work::Create { container, .. } if container.is_bgzf() => {
            // first non-empty block end
            let fb = boundaries.iter().copied().find(|&b| b > 28).unwrap_or(len);
            if first < fb {
                "lt_first_block"
            } else {
                "ge_first_block"
            }
        }
        Work::Create { .. } => {
            if first < 3 {
                "lt_3"
            } else {
                "ge_3"
            }
        }
        _ => "any",
    }
}

struct Judge<'a> {
    work: &'a Work,
    base: &'a Obs,
    boundaries: &'a [usize],
    len: usize,
    out: &'a mut Outcome,
}

impl<'a> Judge<'a> {
    fn judge_read(&mut self, obs: &Obs, _first_chunk: usize, desc: impl Fn() -> String) {
        let first_chunk = obs.first_read;
        self.out.evals += 1;
        self.out.steps += obs.steps;
        self.out.sigs.push(obs.sig);
        self.out.digest = fnv_u64(self.out.digest, obs.digest);
        for (k, _) in &obs.fired {
            self.out.count(&format!("fault.read.{}", k.name()), 1);
        }
        if obs.aborted {
            self.out.inconclusive += 1;
            return;
        }
        let name = work_name(self.work);
        let fcc = first_chunk_class(first_chunk, self.boundaries, self.len, self.work);
        if obs.read_err_fired > 0 {
            // R2: a fired non-EINTR read fault must surface
            if obs.res.is_ok() {
                self.out.violate(
                    "R2_read_error_swallowed",
                    format!("R2 {name} read error fired but result ok"),
                    desc(),
                );
            }
            self.out.count("r2_checked", 1);
            return;
        }
        let same = match (&self.base.res, &obs.res) {
            (Res::Ok(a), Res::Ok(b)) => a == b,
            (Res::Err(_), Res::Err(_)) => true,
            (Res::Panic(_), Res::Panic(_)) => true,
            _ => false,
        };
        if obs.eintr_fired > 0 {
            // admissible: baseline, or any Err
            self.out.count("eintr_checked", 1);
            if !(same || matches!(obs.res, Res::Err(_))) {
                self.out.violate(
                    "R1_eintr_changes_result",
                    format!("R1 {name} eintr base={} got={}", self.base.res.class(), obs.res.class()),
                    desc(),
                );
            }
            return;
        }
        self.out.count("r1_checked", 1);
        if !same {
            let key = match &obs.res {
                Res::Panic(p) => format!("R1 {name} panic {}", l1::panic_key(p)),
                _ => format!(
                    "R1 {name} first_chunk={fcc} base={} got={} stage={}",
                    self.base.res.class(),
                    obs.res.class(),
                    obs.stage
                ),
            };
            let got = match &obs.res {
                Res::Err(e) | Res::Panic(e) => e.clone(),
                Res::Ok((s, b)) => format!("ok shape={s:?} nvals={}", b.len()),
            };
            self.out.violate("R1_schedule_dependence", key, format!("{} ; got: {got}", desc()));
        }
    }
}

impl Prop for C18 {
    type Case = Case;

    fn id(&self) -> &'static str {
        "C18"
    }
    fn isolate(&self) -> bool {
        true
    }
    fn level(&self) -> &'static str {
        "fault_enumeration"
    }
    fn needs_l2(&self) -> bool {
        true
    }
    fn n_cases(&self, tier: Tier) -> u64 {
        match tier {
            Tier::Quick => 2600,
            Tier::Thorough => 30000,
        }
    }

    fn gen(&self, seed: u64, idx: u64, tier: Tier) -> Case {
        let mut rng = Rng::new(seed);
        // every 8th case is a process-level (L2) case
        if idx % 8 == 7 {
            return Case::L2(c18_l2::gen(&mut rng, tier));
        }
        let thorough = tier == Tier::Thorough;
        let work = match rng.below(10) {
            0..=5 => {
                let big = thorough && rng.chance(1, 60);
                // inputs beyond 64 KiB (the detection prefix, one BGZF block, one pipe buffer)
                let mid = !big && rng.chance(1, 25);
                let p = CallSetParams {
                    allow_no_gt: true,
                    allow_ploidy: rng.chance(1, 10),
                    ..CallSetParams::standard(if big { 40 } else if mid { 30 } else { 8 }, if big { 3000 } else if mid { 900 } else { 12 })
                };
                let (mut callset, cfg) = gen::gen_callset(&mut rng, &p);
                if mid {
                    // make sure the encoded input really is longer than 64 KiB (also as raw BCF)
                    gen::pad_callset(&mut callset, 160_000);
                }
                let container = *rng.pick(&[
                    Container::Vcf,
                    Container::VcfGz,
                    Container::VcfGz,
                    Container::Bcf,
                    Container::Bcf,
                    Container::BcfRaw,
                ]);
                let vcf = callset.to_vcf();
                let payload = if container == Container::Bcf {
                    gen::vcf_to_bcf(&vcf).unwrap_or_default()
                } else {
                    vcf
                };
                let layout = gen::gen_layout(&mut rng, &payload, container == Container::VcfGz, 64);
                Work::Create {
                    callset,
                    cfg,
                    container,
                    layout,
                    threads: *rng.pick(&[1usize, 1, 1, 1, 1, 1, 1, 1, 1, 2, 4, 7]),
                }
            }
            6 | 7 => {
                if rng.chance(1, 6) {
                    // large value sections: readers may take other paths for large buffers
                    let n = rng.range(1024, 2300);
                    let mut s = gen::gen_npy_spec(&mut rng, 1, 2, 2);
                    s.shape = vec![n];
                    s.raw = (0..n).map(|i| (i % 251) as i64).collect();
                    if rng.chance(2, 3) {
                        s.dtype = "f8".into();
                        s.endian = '<';
                    }
                    Work::NpyRead { npy: s }
                } else {
                    Work::NpyRead {
                        npy: gen::gen_npy_spec(&mut rng, 4, 5, 64),
                    }
                }
            }
            _ => {
                let spec = if rng.chance(1, 8) {
                    // more values than fit any internal block of the writers
                    let n = *rng.pick(&[1025usize, 2049, 3000, 4097]);
                    Spec::from_vals(vec![n], &(0..n).map(|i| (i % 997) as f64 + 0.25).collect::<Vec<_>>())
                } else {
                    gen::gen_spec(&mut rng, 4, 5, 96, false)
                };
                Work::Write {
                    spec,
                    npy: rng.chance(1, 2),
                    precision: rng.range(0, 17),
                }
            }
        };
        let len = match &work {
            Work::Write { spec, npy, precision } => {
                let o = exec_write(spec, *npy, *precision, &Schedule::oneshot(), &Faults::none());
                o.accepted.len()
            }
            w => work_bytes(w).map(|(b, _)| b.len()).unwrap_or(0),
        };
        let boundaries = work_bytes(&work).map(|(_, b)| b).unwrap_or_default();
        let is_write = matches!(work, Work::Write { .. });
        // sweeps over large inputs are kept narrow: one execution parses the whole input
        let sweep_cap = if len > 100_000 {
            64
        } else if len > 20_000 {
            256
        } else if thorough {
            2048
        } else {
            600
        };
        let mode = match rng.below(10) {
            0..=2 if !is_write && len <= 300_000 => {
                // inputs longer than the sweep bound: the window of first-chunk lengths moves with
                // the seed, preferring the neighbourhood of buffer-size boundaries
                let (lo, hi) = if len <= sweep_cap {
                    (1, len.max(1))
                } else {
                    let centres: Vec<usize> = [512usize, 1024, 4096, 8192, 16384, 65536]
                        .iter()
                        .flat_map(|&p| [p, p + 64, p + 128, p + 192])
                        .filter(|&c| c + 20 < len)
                        .collect();
                    let lo = match rng.below(3) {
                        0 => 1,
                        1 if !centres.is_empty() => rng.pick(&centres).saturating_sub(rng.range(0, sweep_cap / 2)).max(1),
                        _ => rng.range(1, len - sweep_cap),
                    };
                    (lo, (lo + sweep_cap - 1).min(len))
                };
                Mode::FirstChunkSweep {
                    lo,
                    hi,
                    rest: *rng.pick(&[1usize, 7, 64, 8192, 65536, 65536]),
                }
            }
            3..=5 => {
                let kinds: &[ErrKind] = if is_write { &ErrKind::WRITE_KINDS } else { &ErrKind::READ_KINDS };
                let stride = if len > sweep_cap { len / sweep_cap + 1 } else { 1 };
                Mode::FaultSweep {
                    lo: 0,
                    hi: len,
                    stride,
                    kind: *rng.pick(kinds),
                    sched: if rng.chance(1, 2) {
                        Schedule::oneshot()
                    } else {
                        gen_schedule(&mut rng, len, &boundaries)
                    },
                }
            }
            _ => Mode::Sampled {
                sched: gen_schedule(&mut rng, len, &boundaries),
                faults: gen_faults(&mut rng, len, is_write),
            },
        };
        Case::L1 {
            work,
            bufcap: if len > 8192 && rng.chance(1, 2) { 65536 } else { *rng.pick(&BUFCAPS) },
            mode,
        }
    }

    fn run(&self, case: &Case, ctx: &mut Ctx) -> Outcome {
        let (work, bufcap, mode) = match case {
            Case::L2(c) => return c18_l2::run(c, ctx),
            Case::L1 { work, bufcap, mode } => (work, *bufcap, mode),
        };
        let mut out = Outcome {
            digest: FNV_INIT,
            ..Default::default()
        };
        if let Work::Write { spec, npy, precision } = work {
            run_write(spec, *npy, *precision, mode, &mut out);
            return out;
        }
        let Some((bytes, boundaries)) = work_bytes(work) else {
            out.inconclusive += 1;
            return out;
        };
        let len = bytes.len();
        let bytes = Rc::new(bytes);
        // baseline: one-shot delivery behind the buffer Input::open uses for files
        let base = exec_read(work, &bytes, 8192.max(len + 1), &Schedule::oneshot(), &Faults::none());
        out.evals += 1;
        out.steps += base.steps;
        out.digest = fnv_u64(out.digest, base.digest);
        out.count(&format!("baseline.{}.{}", work_name(work), base.res.class()), 1);
        let wname = work_name(work);
        let mut j = Judge {
            work,
            base: &base,
            boundaries: &boundaries,
            len,
            out: &mut out,
        };
        match mode {
            Mode::Sampled { sched, faults } => {
                let obs = exec_read(work, &bytes, bufcap, sched, faults);
                let first = sched.chunks.first().copied().unwrap_or(sched.rest).min(bufcap);
                j.judge_read(&obs, first, || format!("{wname} bufcap={bufcap} sched={sched:?} faults={faults:?}"));
                if !faults.is_none() || !sched.is_oneshot() {
                    let h = fnv_u64(obs.sig, base.digest);
                    j.out.nontrivial.push(h);
                }
            }
            Mode::FirstChunkSweep { lo, hi, rest } => {
                for first in *lo..=(*hi).min(len.max(1)) {
                    let sched = Schedule::first_then(first, *rest);
                    // the reader buffer must not hide the first chunk: use a capacity >= first
                    let cap = bufcap.max(first);
                    let obs = exec_read(work, &bytes, cap, &sched, &Faults::none());
                    j.judge_read(&obs, first, || format!("{wname} bufcap={cap} first_chunk={first} rest={rest}"));
                    j.out.nontrivial.push(fnv_u64(fnv_u64(base.digest, first as u64), *rest as u64));
                    let cls = if first < 2 {
                        "first_chunk.lt2"
                    } else if first < 3 {
                        "first_chunk.lt3"
                    } else if first < 18 {
                        "first_chunk.lt18"
                    } else if boundaries.first().map(|&b| first < b).unwrap_or(false) {
                        "first_chunk.inside_first_unit"
                    } else {
                        "first_chunk.ge_first_unit"
                    };
                    j.out.count(cls, 1);
                }
            }
            Mode::FaultSweep {
                lo,
                hi,
                stride,
                kind,
                sched,
            } => {
                let mut k = *lo;
                while k <= (*hi).min(len) {
                    let faults = Faults {
                        fail: vec![(k, *kind)],
                        ..Default::default()
                    };
                    let obs = exec_read(work, &bytes, bufcap, sched, &faults);
                    let first = sched.chunks.first().copied().unwrap_or(sched.rest).min(bufcap);
                    j.judge_read(&obs, first, || {
                        format!("{wname} bufcap={bufcap} fail_at={k} kind={kind:?} sched={sched:?}")
                    });
                    j.out.nontrivial.push(fnv_u64(fnv_u64(base.digest, k as u64), *kind as u64 + 77));
                    if obs.read_err_fired == 0 {
                        j.out.count("fault_placed_but_not_fired", 1);
                    }
                    k += (*stride).max(1);
                }
            }
        }
        out
    }

    fn shrink(&self, case: &Case) -> Vec<Case> {
        let (work, bufcap, mode) = match case {
            Case::L2(c) => return c18_l2::shrink(c).into_iter().map(Case::L2).collect(),
            Case::L1 { work, bufcap, mode } => (work, *bufcap, mode),
        };
        let mut v = vec![];
        // 1. narrow sweeps (bisection), then turn them into a single sampled execution
        match mode {
            Mode::FirstChunkSweep { lo, hi, rest } => {
                if lo < hi {
                    let mid = (lo + hi) / 2;
                    for (a, b) in [(*lo, mid), (mid + 1, *hi)] {
                        v.push(Case::L1 {
                            work: work.clone(),
                            bufcap,
                            mode: Mode::FirstChunkSweep { lo: a, hi: b, rest: *rest },
                        });
                    }
                } else {
                    v.push(Case::L1 {
                        work: work.clone(),
                        bufcap: bufcap.max(*lo),
                        mode: Mode::Sampled {
                            sched: Schedule::first_then(*lo, *rest),
                            faults: Faults::none(),
                        },
                    });
                }
            }
            Mode::FaultSweep {
                lo,
                hi,
                stride,
                kind,
                sched,
            } => {
                if lo + stride <= *hi {
                    let span = (hi - lo) / stride;
                    let mid = lo + (span / 2) * stride;
                    for (a, b) in [(*lo, mid), (mid + stride, *hi)] {
                        v.push(Case::L1 {
                            work: work.clone(),
                            bufcap,
                            mode: Mode::FaultSweep {
                                lo: a,
                                hi: b,
                                stride: *stride,
                                kind: *kind,
                                sched: sched.clone(),
                            },
                        });
                    }
                } else {
                    v.push(Case::L1 {
                        work: work.clone(),
                        bufcap,
                        mode: Mode::Sampled {
                            sched: sched.clone(),
                            faults: Faults {
                                fail: vec![(*lo, *kind)],
                                ..Default::default()
                            },
                        },
                    });
                }
            }
            Mode::Sampled { sched, faults } => {
                // remove faults one at a time
                for i in 0..faults.fail.len() {
                    let mut f = faults.clone();
                    f.fail.remove(i);
                    v.push(Case::L1 { work: work.clone(), bufcap, mode: Mode::Sampled { sched: sched.clone(), faults: f } });
                }
                for i in 0..faults.eintr.len() {
                    let mut f = faults.clone();
                    f.eintr.remove(i);
                    v.push(Case::L1 { work: work.clone(), bufcap, mode: Mode::Sampled { sched: sched.clone(), faults: f } });
                }
                for i in 0..faults.zero.len() {
                    let mut f = faults.clone();
                    f.zero.remove(i);
                    v.push(Case::L1 { work: work.clone(), bufcap, mode: Mode::Sampled { sched: sched.clone(), faults: f } });
                }
                // merge chunks towards "first chunk + one rest chunk"
                if sched.chunks.len() > 1 {
                    let mut s = sched.clone();
                    s.chunks.truncate(1);
                    v.push(Case::L1 { work: work.clone(), bufcap, mode: Mode::Sampled { sched: s, faults: faults.clone() } });
                    let mut s = sched.clone();
                    s.chunks.truncate(sched.chunks.len() / 2);
                    v.push(Case::L1 { work: work.clone(), bufcap, mode: Mode::Sampled { sched: s, faults: faults.clone() } });
                }
                if sched.rest != 65536 && !sched.is_oneshot() {
                    let mut s = sched.clone();
                    s.rest = 65536;
                    v.push(Case::L1 { work: work.clone(), bufcap, mode: Mode::Sampled { sched: s, faults: faults.clone() } });
                }
                if bufcap != 8192 {
                    v.push(Case::L1 { work: work.clone(), bufcap: 8192, mode: mode.clone() });
                }
            }
        }
        // 2. simplify the workload
        for w in shrink_work(work) {
            v.push(Case::L1 {
                work: w,
                bufcap,
                mode: mode.clone(),
            });
        }
        v
    }

    fn sample(&self, case: &Case) -> Value {
        match case {
            Case::L2(c) => c18_l2::sample(c),
            Case::L1 { work, bufcap, mode } => {
                let w = match work {
                    Work::Create {
                        callset,
                        cfg,
                        container,
                        layout,
                        threads,
                    } => json!({"op":"create","container":container.name(),"records":callset.recs.len(),
                        "samples":callset.samples.len(),"config":cfg,"threads":threads,
                        "bgzf_blocks":layout.blocks.len(),"first_record": callset.recs.first().map(|r| callset.rec_text(r))}),
                    Work::NpyRead { npy } => json!({"op":"read_npy","version":npy.version,"descr":format!("{}{}",npy.endian,npy.dtype),"shape":npy.shape}),
                    Work::Write { spec, npy, precision } => json!({"op":"write","format": if *npy {"npy"} else {"text"},"precision":precision,"spectrum":spec.render()}),
                };
                json!({"layer":"L1","work":w,"reader_buffer":bufcap,"mode":mode})
            }
        }
    }

    fn rule(&self) -> String {
        "A case is a workload (call set in one of 4 containers with an explicit BGZF block layout and thread count, \
         or an npy image of any dtype/version, or a spectrum to write) plus a mode: one sampled chunk schedule + fault plan, \
         an exhaustive sweep of the first-chunk length (1..len, bounded), or an exhaustive sweep of the byte offset at which a \
         read/write error of one kind is injected. Every execution of real sfs code counts as one evaluation. \
         Distinct non-trivial = distinct (workload digest, schedule/fault point) pairs in which the schedule is not one-shot or a fault is placed. \
         Every 8th case runs the real binary under the system-call shim (layer L2)."
            .to_string()
    }

    fn assumptions(&self) -> Vec<String> {
        vec![
            "UnexpectedEof is never injected as a read error kind (it is read_exact's in-band end-of-stream signal and no OS reader returns it from read)".into(),
            "After an injected EINTR the admissible outcomes are the baseline result or any error (retrying and reporting are both legitimate)".into(),
            "Injected errors fire once; later calls proceed normally, so a caller that swallows an error goes on to read/write complete data and is caught by R2/W2".into(),
            "BCF bytes are produced by noodles-bcf's own writer from the generated VCF text (trusted base)".into(),
            "L1 replicates the ~10 lines of Create::run as glue; L2 runs the real binary".into(),
        ]
    }

    fn components(&self) -> Value {
        json!({
            "real": ["sfs-core (feature verif): genotype::reader::Builder detection + construction via hook build_from_bufread, site::Reader, Array::read_npy, write::Builder::write",
                     "cli/src/create/runner.rs (compiled in unchanged via include!)", "noodles-vcf/bcf/bgzf, flate2, std::io::BufReader",
                     "L2: the unmodified sfs binary (dev profile) and the kernel"],
            "stubbed": ["SimRead/SimWrite (the OS side of read/write)", "glue replicating Create::run (L1)", "L2: read/write/writev/open*/getrandom results on governed fds (LD_PRELOAD shim)"],
            "uncontrolled": ["interleaving of noodles-bgzf worker threads (oracle is insensitive to it by construction)"]
        })
    }

    fn expected_probes(&self) -> Vec<&'static str> {
        vec![
            "r1_checked",
            "r2_checked",
            "eintr_checked",
            "w1_checked",
            "w2_checked",
            "first_chunk.lt2",
            "first_chunk.lt18",
            "first_chunk.ge_first_unit",
            "l2.runs",
        ]
    }
}

fn run_write(spec: &Spec, npy: bool, precision: usize, mode: &Mode, out: &mut Outcome) {
    let base = exec_write(spec, npy, precision, &Schedule::oneshot(), &Faults::none());
    out.evals += 1;
    out.steps += base.steps;
    out.digest = fnv_u64(out.digest, base.digest);
    let name = format!("write/{}", if npy { "npy" } else { "text" });
    out.count(&format!("baseline.{name}.{}", base.res.class()), 1);
    if !base.res.is_ok() {
        // e.g. a panic of the writer itself: not a chunking question (C17 territory); still,
        // the short-write runs must behave the same
    }
    let full = base.accepted.clone();
    // a second, different spectrum written fault-free right after a failed write (same thread, same
    // format): a failed operation must not leave anything behind that shows up in the next one
    let probe = Spec::from_vals(vec![3], &[7.0, 11.0, 13.5]);
    let probe_full = exec_write(&probe, npy, precision.min(17), &Schedule::oneshot(), &Faults::none()).accepted;
    let mut judge = |obs: &Obs, desc: &dyn Fn() -> String, out: &mut Outcome| {
        out.evals += 1;
        out.steps += obs.steps;
        out.sigs.push(obs.sig);
        out.digest = fnv_u64(out.digest, obs.digest);
        for (k, _) in &obs.fired {
            out.count(&format!("fault.write.{}", k.name()), 1);
        }
        out.count("fault.write.ok0", obs.zero_fired);
        if obs.aborted {
            out.inconclusive += 1;
            return;
        }
        if !base.res.is_ok() {
            if obs.res.class() != base.res.class() && obs.write_err_fired == 0 && obs.zero_fired == 0 && obs.eintr_fired == 0 {
                out.violate(
                    "W1_short_write_dependence",
                    format!("W1 {name} base={} got={}", base.res.class(), obs.res.class()),
                    desc(),
                );
            }
            return;
        }
        let is_prefix = full.starts_with(&obs.accepted);
        match &obs.res {
            Res::Ok(_) => {
                out.count("w1_checked", 1);
                if obs.accepted != full {
                    out.violate(
                        "W1_short_write_dependence",
                        format!("W1 {name} ok but bytes differ"),
                        format!("{} ; accepted {} bytes, one-shot {} bytes, prefix={is_prefix}", desc(), obs.accepted.len(), full.len()),
                    );
                }
                if obs.write_err_fired > 0 {
                    out.violate(
                        "W2_write_error_swallowed",
                        format!("W2 {name} write error fired but result ok"),
                        desc(),
                    );
                }
            }
            Res::Err(_) => {
                out.count("w2_checked", 1);
                if obs.write_err_fired == 0 && obs.zero_fired == 0 && obs.eintr_fired == 0 {
                    out.violate(
                        "W1_short_write_dependence",
                        format!("W1 {name} error without fault"),
                        format!("{} ; {:?}", desc(), obs.res),
                    );
                }
                if !is_prefix {
                    out.violate(
                        "W2_not_a_prefix",
                        format!("W2 {name} accepted bytes are not a prefix"),
                        desc(),
                    );
                }
                let after = exec_write(&probe, npy, precision.min(17), &Schedule::oneshot(), &Faults::none());
                out.evals += 1;
                out.count("w3_write_after_failed_write_checked", 1);
                if !probe_full.is_empty() && after.accepted != probe_full {
                    out.violate(
                        "W3_failed_write_leaks_into_next",
                        format!("W3 {name} the write after a failed write differs from the same write on its own"),
                        format!("{} ; next write: {} bytes, on its own: {} bytes", desc(), after.accepted.len(), probe_full.len()),
                    );
                }
            }
            Res::Panic(p) => {
                out.violate("W_panic", format!("W {name} panic {}", l1::panic_key(p)), format!("{} ; {p}", desc()));
            }
        }
    };
    match mode {
        Mode::Sampled { sched, faults } => {
            let obs = exec_write(spec, npy, precision, sched, faults);
            judge(&obs, &|| format!("{name} p={precision} sched={sched:?} faults={faults:?} spec={}", spec.render()), out);
            out.nontrivial.push(fnv_u64(obs.sig, base.digest));
        }
        Mode::FirstChunkSweep { .. } => {}
        Mode::FaultSweep {
            lo,
            hi,
            stride,
            kind,
            sched,
        } => {
            let mut k = *lo;
            while k <= (*hi).min(full.len()) {
                let faults = Faults {
                    fail: vec![(k, *kind)],
                    ..Default::default()
                };
                let obs = exec_write(spec, npy, precision, sched, &faults);
                judge(&obs, &|| format!("{name} p={precision} fail_at={k} kind={kind:?} sched={sched:?} spec={}", spec.render()), out);
                out.nontrivial.push(fnv_u64(fnv_u64(base.digest, k as u64), *kind as u64 + 99));
                k += (*stride).max(1);
            }
        }
    }
}

pub fn shrink_callset(cs: &CallSet, cfg: &Config) -> Vec<(CallSet, Config)> {
    let mut v = vec![];
    let n = cs.recs.len();
    if n > 1 {
        let mut a = cs.clone();
        a.recs.truncate(n / 2);
        v.push((a, cfg.clone()));
        let mut b = cs.clone();
        b.recs.drain(..n / 2);
        v.push((b, cfg.clone()));
    }
    if n > 0 && n <= 12 {
        for i in 0..n {
            let mut a = cs.clone();
            a.recs.remove(i);
            v.push((a, cfg.clone()));
        }
    }
    // drop a sample (and its list entry)
    if cs.samples.len() > 1 {
        for i in (0..cs.samples.len()).rev() {
            let mut a = cs.clone();
            let name = a.samples.remove(i);
            for r in a.recs.iter_mut() {
                r.gts.remove(i);
            }
            let mut c = cfg.clone();
            if let Some(l) = c.sel.as_mut() {
                l.retain(|(s, _)| *s != name);
                if l.is_empty() {
                    continue;
                }
            }
            if c.project.is_some() {
                // keep the projection admissible
                let sizes = c.pop_sizes(&a.samples);
                if let Some(p) = c.project.as_mut() {
                    if p.len() != sizes.len() {
                        continue;
                    }
                    for (t, s) in p.iter_mut().zip(sizes.iter()) {
                        *t = (*t).min(2 * s + 1);
                    }
                }
            }
            v.push((a, c));
        }
    }
    if cfg.project.is_some() {
        let mut c = cfg.clone();
        c.project = None;
        v.push((cs.clone(), c));
    }
    if cfg.sel.is_some() {
        let mut c = cfg.clone();
        c.sel = None;
        if c.project.is_none() {
            v.push((cs.clone(), c));
        }
    }
    if cs.extra_info {
        let mut a = cs.clone();
        a.extra_info = false;
        v.push((a, cfg.clone()));
    }
    if cs.recs.iter().any(|r| r.extra_fmt) {
        let mut a = cs.clone();
        for r in a.recs.iter_mut() {
            r.extra_fmt = false;
        }
        v.push((a, cfg.clone()));
    }
    v
}

fn shrink_work(work: &Work) -> Vec<Work> {
    let mut v = vec![];
    match work {
        Work::Create {
            callset,
            cfg,
            container,
            layout,
            threads,
        } => {
            if *threads != 1 {
                v.push(Work::Create {
                    callset: callset.clone(),
                    cfg: cfg.clone(),
                    container: *container,
                    layout: layout.clone(),
                    threads: 1,
                });
            }
            if layout.blocks.len() > 1 || layout.level != 6 || !layout.eof_marker {
                v.push(Work::Create {
                    callset: callset.clone(),
                    cfg: cfg.clone(),
                    container: *container,
                    layout: Layout {
                        blocks: vec![],
                        eof_marker: true,
                        level: 6,
                    bcf_minor: 0, no_contig_lines: false,
                    },
                    threads: *threads,
                });
            }
            for (cs, c) in shrink_callset(callset, cfg) {
                v.push(Work::Create {
                    callset: cs,
                    cfg: c,
                    container: *container,
                    layout: layout.clone(),
                    threads: *threads,
                });
            }
        }
        Work::NpyRead { npy } => {
            if npy.shape.len() > 1 {
                let n: usize = npy.shape.iter().product();
                let mut s = npy.clone();
                s.shape = vec![n];
                v.push(Work::NpyRead { npy: s });
            }
            if npy.raw.len() > 1 {
                let mut s = npy.clone();
                let n = npy.raw.len() / 2;
                s.raw.truncate(n);
                s.shape = vec![n];
                v.push(Work::NpyRead { npy: s });
            }
            if npy.spelling != 0 {
                let mut s = npy.clone();
                s.spelling = 0;
                v.push(Work::NpyRead { npy: s });
            }
            if npy.version != 1 {
                let mut s = npy.clone();
                s.version = 1;
                v.push(Work::NpyRead { npy: s });
            }
        }
        Work::Write { spec, npy, precision } => {
            if spec.shape.len() > 1 {
                let n: usize = spec.shape.iter().product();
                v.push(Work::Write {
                    spec: Spec {
                        shape: vec![n],
                        bits: spec.bits.clone(),
                    },
                    npy: *npy,
                    precision: *precision,
                });
            }
            if spec.bits.len() > 1 {
                let n = spec.bits.len() / 2;
                v.push(Work::Write {
                    spec: Spec {
                        shape: vec![n],
                        bits: spec.bits[..n].to_vec(),
                    },
                    npy: *npy,
                    precision: *precision,
                });
            }
            if spec.bits.iter().any(|&b| b != 1f64.to_bits()) {
                v.push(Work::Write {
                    spec: Spec {
                        shape: spec.shape.clone(),
                        bits: vec![1f64.to_bits(); spec.bits.len()],
                    },
                    npy: *npy,
                    precision: *precision,
                });
            }
        }
    }
    v
}
