//! C16 — damaged spectrum files are rejected, never read as a different spectrum.
//!
//! Crash-consistency scenario: `write_to_path` is `File::create` + many small writes, so a
//! crash leaves a strict prefix; a non-truncating overwrite leaves a stale tail.  Per file
//! the damage space is enumerated exhaustively: every truncation offset, every extension
//! length 1..16 in four content kinds, every single-token removal/insertion and shape edit
//! of text files.  L2 runs view/fold/stat of the real binary on damaged files, including
//! prefixes produced by the tool itself when it is killed mid-write (`wr.kill`).

use serde::{Deserialize, Serialize};
use serde_json::{json, Value};

use crate::{
    gen::{self, NpySpec, Spec},
    harness::{Ctx, Outcome, Prop, Tier},
    l1::{self, Res},
    l2::{self, Child, Plan, Stdin, Target},
    rng::{fnv1a, fnv_u64, Rng, FNV_INIT},
};

#[derive(Clone, Debug, Serialize, Deserialize)]
pub enum FileSpec {
    /// synthesized the way numpy lays files out (any dtype / version / spelling)
    Npy(NpySpec),
    /// written by sfs' own npy writer
    NpyWritten(Spec),
    /// written by sfs' own text writer
    Text { spec: Spec, precision: usize },
}

#[derive(Clone, Debug, PartialEq, Serialize, Deserialize)]
pub enum Damage {
    Truncate(usize),
    /// kind: 0 zeros, 1 pseudo-random bytes, 2 copy of the last bytes, 3 head of another valid file,
    /// 4 ASCII whitespace (newlines, spaces, CR LF, tabs)
    Extend { kind: u8, n: usize },
    /// the declared shape of an npy file is rewritten (values untouched): kind 0 axis+1, 1 axis-1,
    /// 2 extra axis of length 2, 3 product overflows usize
    NpyShapeEdit { kind: u8, axis: usize },
    /// remove value token i
    TextDrop(usize),
    /// duplicate value token i
    TextInsert(usize),
    /// duplicate value token i, the copy separated from the original by another ASCII whitespace
    /// than a single space: 1 tab, 2 bare CR, 3 CR LF, 4 two spaces, 5 LF, 6 form feed
    TextInsertSep { i: usize, sep: u8 },
    /// remove value token i and separate its neighbours by that whitespace instead
    TextDropSep { i: usize, sep: u8 },
    /// kind 0: axis+1, 1: axis-1, 2: append an axis of length 2, 3: drop the last axis
    ShapeEdit { kind: u8, axis: usize },
    /// surplus values after the value line: kind 0 duplicates the value line, 1 appends a line
    /// with one value, 2 appends the whole file again (two concatenated files), 3 appends a
    /// value line without a trailing newline
    TextAppend { kind: u8 },
    /// text file cut at byte k (a crash while writing)
    TextTruncate(usize),
}

#[derive(Clone, Debug, Serialize, Deserialize)]
pub enum Damages {
    All,
    List(Vec<Damage>),
}

#[derive(Clone, Debug, Serialize, Deserialize)]
pub enum Case {
    L1 {
        file: FileSpec,
        damages: Damages,
        via_file: bool,
    },
    L2 {
        file: FileSpec,
        cmd: String,
        damages: Vec<Damage>,
        kill_points: Vec<usize>,
        stdin: bool,
    },
}

pub struct C16;

pub fn image(file: &FileSpec) -> Option<Vec<u8>> {
    match file {
        FileSpec::Npy(s) => Some(gen::npy_image(s)),
        FileSpec::NpyWritten(spec) => {
            let mut v = vec![];
            match l1::write_spectrum(&mut v, &l1::scs_from(&spec.shape, &spec.bits), true, 6) {
                Res::Ok(()) => Some(v),
                _ => None,
            }
        }
        FileSpec::Text { spec, precision } => {
            let mut v = vec![];
            match l1::write_spectrum(&mut v, &l1::scs_from(&spec.shape, &spec.bits), false, *precision) {
                Res::Ok(()) => Some(v),
                _ => None,
            }
        }
    }
}

fn is_text(file: &FileSpec) -> bool {
    matches!(file, FileSpec::Text { .. })
}

fn shape_of(file: &FileSpec) -> Vec<usize> {
    match file {
        FileSpec::Npy(s) => s.shape.clone(),
        FileSpec::NpyWritten(s) => s.shape.clone(),
        FileSpec::Text { spec, .. } => spec.shape.clone(),
    }
}

pub fn all_damages(file: &FileSpec, img: &[u8]) -> Vec<Damage> {
    let mut v = vec![];
    if is_text(file) {
        let shape = shape_of(file);
        let n: usize = shape.iter().product();
        for i in 0..n {
            v.push(Damage::TextDrop(i));
        }
        for i in 0..n {
            v.push(Damage::TextInsert(i));
        }
        // the same edits with every other kind of ASCII whitespace at the edited place (all of
        // them for small files, a rotating one for large files)
        for i in 0..n {
            for sep in 1..=6u8 {
                if n <= 64 || (i + sep as usize) % 6 == 0 {
                    v.push(Damage::TextInsertSep { i, sep });
                    v.push(Damage::TextDropSep { i, sep });
                }
            }
        }
        for axis in 0..shape.len() {
            v.push(Damage::ShapeEdit { kind: 0, axis });
            v.push(Damage::ShapeEdit { kind: 1, axis });
            v.push(Damage::ShapeEdit { kind: 4, axis });
        }
        v.push(Damage::ShapeEdit { kind: 5, axis: 0 });
        v.push(Damage::ShapeEdit { kind: 2, axis: 0 });
        v.push(Damage::ShapeEdit { kind: 3, axis: 0 });
        for kind in 0..4u8 {
            v.push(Damage::TextAppend { kind });
        }
        for k in 0..img.len() {
            v.push(Damage::TextTruncate(k));
        }
    } else {
        for k in 0..img.len() {
            v.push(Damage::Truncate(k));
        }
        for kind in 0..5u8 {
            for n in 1..=16 {
                v.push(Damage::Extend { kind, n });
            }
        }
        if let FileSpec::Npy(s) = file {
            for axis in 0..s.shape.len() {
                for kind in 0..4u8 {
                    v.push(Damage::NpyShapeEdit { kind, axis });
                }
            }
        }
    }
    v
}

/// Applies a damage; returns None where the damage is not applicable or — for text edits —
/// where the edited file is still a valid file (count == product of the declared shape).
pub fn apply(file: &FileSpec, img: &[u8], d: &Damage) -> Option<Vec<u8>> {
    match d {
        Damage::Truncate(k) => {
            if *k < img.len() {
                Some(img[..*k].to_vec())
            } else {
                None
            }
        }
        Damage::Extend { kind, n } => {
            let mut v = img.to_vec();
            match kind {
                0 => v.extend(std::iter::repeat(0u8).take(*n)),
                1 => {
                    let mut r = Rng::new(fnv1a(img) ^ *n as u64);
                    v.extend((0..*n).map(|_| r.below(256) as u8));
                }
                2 => {
                    let tail: Vec<u8> = img[img.len().saturating_sub(*n)..].to_vec();
                    v.extend(tail.iter().cycle().take(*n));
                }
                3 => v.extend(img.iter().cycle().take(*n)),
                _ => {
                    let pat: &[u8] = [&b"\n"[..], &b" "[..], &b"\r\n"[..], &b"\t"[..], &b" \n"[..]][*n % 5];
                    v.extend(pat.iter().cycle().take(*n));
                }
            }
            Some(v)
        }
        Damage::NpyShapeEdit { kind, axis } => {
            let FileSpec::Npy(s) = file else { return None };
            let mut t = s.clone();
            match kind {
                0 => *t.shape.get_mut(*axis)? += 1,
                1 => {
                    let a = t.shape.get_mut(*axis)?;
                    if *a <= 1 {
                        return None;
                    }
                    *a -= 1;
                }
                2 => t.shape.push(2),
                _ => {
                    // product >= 2^64 although every trailing product still fits
                    if t.shape.len() < 2 {
                        t.shape.push(2);
                    }
                    let a = (*axis).min(t.shape.len() - 1);
                    for (i, x) in t.shape.iter_mut().enumerate() {
                        *x = if i == a { 1 << 63 } else { (*x).max(2) };
                    }
                }
            }
            let n: Option<u128> = t.shape.iter().try_fold(1u128, |acc, &x| acc.checked_mul(x as u128));
            if n == Some(s.raw.len() as u128) {
                return None;
            }
            Some(gen::npy_image(&t))
        }
        Damage::TextAppend { kind } => {
            let text = std::str::from_utf8(img).ok()?;
            let (_, rest) = text.split_once('\n')?;
            let line = rest.trim_end_matches('\n');
            if line.split_ascii_whitespace().count() == 0 {
                return None;
            }
            let mut v = img.to_vec();
            match kind {
                0 => v.extend_from_slice(format!("{line}\n").as_bytes()),
                1 => v.extend_from_slice(b"1\n"),
                2 => v.extend_from_slice(img),
                _ => v.extend_from_slice(line.split_ascii_whitespace().next()?.as_bytes()),
            }
            Some(v)
        }
        Damage::TextTruncate(k) => {
            // the oracle applies only where the cut file no longer holds product(shape) values
            // under the original header (a cut inside the last token still parses as a value)
            if *k >= img.len() {
                return None;
            }
            let cut = &img[..*k];
            let text = std::str::from_utf8(cut).ok()?;
            let shape = shape_of(file);
            let product: usize = shape.iter().product();
            match text.split_once('\n') {
                Some((_, rest)) => {
                    if rest.split_ascii_whitespace().count() == product {
                        return None;
                    }
                }
                None => {
                    // header line cut: the declared shape may have changed; skip when the prefix
                    // could still be read as a header of some valid file (no values follow)
                    if product == 0 {
                        return None;
                    }
                }
            }
            Some(cut.to_vec())
        }
        Damage::TextInsertSep { i, sep } | Damage::TextDropSep { i, sep } => {
            let text = std::str::from_utf8(img).ok()?;
            let (header, rest) = text.split_once('\n')?;
            let tokens: Vec<&str> = rest.split_ascii_whitespace().collect();
            if *i >= tokens.len() {
                return None;
            }
            let ws = ["\t", "\r", "\r\n", "  ", "\n", "\x0c"][(*sep as usize - 1).min(5)];
            let insert = matches!(d, Damage::TextInsertSep { .. });
            if !insert && (tokens.len() < 3 || *i == 0 || *i + 1 >= tokens.len()) {
                return None; // needs a neighbour on both sides
            }
            let mut body = String::new();
            for (k, t) in tokens.iter().enumerate() {
                if !insert && k == *i {
                    continue;
                }
                if !body.is_empty() {
                    // the separator in front of token k
                    let special = if insert { false } else { k == *i + 1 };
                    body.push_str(if special { ws } else { " " });
                }
                body.push_str(t);
                if insert && k == *i {
                    body.push_str(ws);
                    body.push_str(t);
                }
            }
            Some(format!("{header}\n{body}\n").into_bytes())
        }
        Damage::TextDrop(_) | Damage::TextInsert(_) | Damage::ShapeEdit { .. } => {
            let text = std::str::from_utf8(img).ok()?;
            let (header, rest) = text.split_once('\n')?;
            let mut tokens: Vec<&str> = rest.split_ascii_whitespace().collect();
            let mut shape: Vec<usize> = shape_of(file);
            match d {
                Damage::TextDrop(i) => {
                    if *i >= tokens.len() {
                        return None;
                    }
                    tokens.remove(*i);
                }
                Damage::TextInsert(i) => {
                    if *i >= tokens.len() {
                        return None;
                    }
                    let t = tokens[*i];
                    tokens.insert(*i, t);
                }
                Damage::ShapeEdit { kind, axis } => match kind {
                    0 => *shape.get_mut(*axis)? += 1,
                    1 => {
                        let a = shape.get_mut(*axis)?;
                        if *a == 0 {
                            return None;
                        }
                        *a -= 1;
                    }
                    2 => shape.push(2),
                    3 => {
                        if shape.len() < 2 {
                            return None;
                        }
                        shape.pop();
                    }
                    _ => {
                        // the product of the declared shape overflows usize (it certainly differs
                        // from the number of values); kind 4: 2^63 x 2.., kind 5: 2^32 x 2^32 ..
                        if shape.len() < 2 {
                            shape.push(2);
                        }
                        let a = (*axis).min(shape.len() - 1);
                        for (i, x) in shape.iter_mut().enumerate() {
                            *x = if *kind == 4 {
                                if i == a { 1usize << 63 } else { (*x).max(2) }
                            } else {
                                1usize << 32
                            };
                        }
                    }
                },
                _ => unreachable!(),
            }
            let product: Option<u128> = shape.iter().try_fold(1u128, |acc, &x| acc.checked_mul(x as u128));
            if product == Some(tokens.len() as u128) {
                return None; // still a valid file: the oracle does not apply
            }
            let _ = header;
            let hdr = format!(
                "#SHAPE=<{}>",
                shape.iter().map(|x| x.to_string()).collect::<Vec<_>>().join("/")
            );
            Some(format!("{hdr}\n{}\n", tokens.join(" ")).into_bytes())
        }
    }
}

fn offset_class(file: &FileSpec, img: &[u8], k: usize) -> &'static str {
    if is_text(file) {
        return "text";
    }
    let (lenbytes, esz) = match file {
        FileSpec::Npy(s) => (if s.version == 1 { 2 } else { 4 }, gen::dtype_size(&s.dtype)),
        _ => (2, 8),
    };
    let hdr_total = if lenbytes == 2 {
        10 + u16::from_le_bytes([img[8], img[9]]) as usize
    } else {
        12 + u32::from_le_bytes([img[8], img[9], img[10], img[11]]) as usize
    };
    if k < 6 {
        "magic"
    } else if k < 8 {
        "version"
    } else if k < 8 + lenbytes {
        "header_len"
    } else if k < hdr_total {
        let dict_end = img[..hdr_total].iter().rposition(|&b| b == b'}').unwrap_or(hdr_total);
        if k <= dict_end {
            "dict"
        } else {
            "padding"
        }
    } else if (k - hdr_total) % esz == 0 {
        "value_boundary"
    } else {
        "mid_value"
    }
}

pub fn damage_class(file: &FileSpec, img: &[u8], d: &Damage) -> String {
    match d {
        Damage::Truncate(k) => format!("truncate@{}", offset_class(file, img, *k)),
        Damage::Extend { kind, n } => format!(
            "extend/{}/{}",
            ["zeros", "random", "tail_copy", "head_of_valid_file", "ascii_whitespace"][*kind as usize % 5],
            if *n % 8 == 0 { "multiple_of_8" } else { "odd_len" }
        ),
        Damage::TextDrop(_) => "text_drop_token".into(),
        Damage::TextInsert(_) => "text_insert_token".into(),
        Damage::TextInsertSep { sep, .. } => format!("text_insert_token/sep{sep}"),
        Damage::TextDropSep { sep, .. } => format!("text_drop_token/sep{sep}"),
        Damage::ShapeEdit { kind, .. } => format!("text_shape_edit_{kind}"),
        Damage::NpyShapeEdit { kind, .. } => format!("npy_shape_edit_{}", ["axis_plus_one", "axis_minus_one", "extra_axis", "overflowing_product"][*kind as usize % 4]),
        Damage::TextAppend { kind } => format!("text_append_{}", ["duplicate_value_line", "extra_line", "concatenated_file", "unterminated_extra_value"][*kind as usize % 4]),
        Damage::TextTruncate(_) => "text_truncate".into(),
    }
}

fn file_kind(file: &FileSpec) -> String {
    match file {
        FileSpec::Npy(s) => format!("npy(v{} {}{})", s.version, s.endian, s.dtype),
        FileSpec::NpyWritten(_) => "npy(written by sfs)".into(),
        FileSpec::Text { .. } => "text".into(),
    }
}

fn key_file_kind(file: &FileSpec) -> &'static str {
    match file {
        FileSpec::Npy(_) => "npy",
        FileSpec::NpyWritten(_) => "npy_written",
        FileSpec::Text { .. } => "text",
    }
}

fn read_image(ctx: &mut Ctx, img: &[u8], via_file: bool) -> Res<(Vec<usize>, Vec<u64>)> {
    if via_file {
        ctx.serial += 1;
        let p = ctx.scratch.join(format!("f{}", ctx.serial % 4));
        if std::fs::write(&p, img).is_err() {
            return Res::Err("scratch write failed".into());
        }
        l1::read_spectrum_file(&p)
    } else {
        l1::read_npy(img)
    }
}

impl Prop for C16 {
    type Case = Case;
    fn id(&self) -> &'static str {
        "C16"
    }
    /// every case runs on a fresh thread: the reads of one case form a call history on one thread
    /// (control, then one damaged image after the other), and nothing a reader keeps per thread can
    /// leak from one case into the next - so a reader whose verdict depends on earlier reads is
    /// reported as an accepted damaged file with a history that replays, not as a digest mismatch
    fn isolate(&self) -> bool {
        true
    }
    fn level(&self) -> &'static str {
        "fault_enumeration"
    }
    fn n_cases(&self, tier: Tier) -> u64 {
        match tier {
            Tier::Quick => 4000,
            Tier::Thorough => 60000,
        }
    }

    fn gen(&self, seed: u64, idx: u64, tier: Tier) -> Case {
        let mut rng = Rng::new(seed);
        let thorough = tier == Tier::Thorough;
        let (max_axes, max_len, max_elems) = if thorough && rng.chance(1, 6) { (6, 9, 480) } else { (5, 6, 64) };
        if idx % 10 != 9 && rng.chance(1, 150) {
            // a very large file (>= 8,192 or > 65,535 values): the damage space is sampled here —
            // every extension, the cuts inside the last values, the header, and random offsets
            let n = *rng.pick(&[8192usize, 8193, 8200, 65536, 65537, 66000]);
            let shape = if rng.chance(1, 2) { vec![n] } else if n % 2 == 0 { vec![2, n / 2] } else { vec![n] };
            let cnt: usize = shape.iter().product();
            let file = if rng.chance(1, 2) {
                FileSpec::Npy(NpySpec {
                    version: *rng.pick(&[1u8, 2, 3]),
                    endian: '<',
                    dtype: "f8".into(),
                    shape,
                    spelling: rng.below(12) as u8,
                    raw: (0..cnt).map(|i| 4_978_000 + (i % 977) as i64).collect(),
                })
            } else {
                FileSpec::NpyWritten(Spec::from_vals(shape, &(0..cnt).map(|i| 622_250.0 + (i % 89) as f64 * 0.25).collect::<Vec<_>>()))
            };
            let len = image(&file).map(|i| i.len()).unwrap_or(0);
            let mut list = vec![];
            for kind in 0..5u8 {
                for n in 1..=16 {
                    list.push(Damage::Extend { kind, n });
                }
            }
            for k in 0..160.min(len) {
                list.push(Damage::Truncate(k));
            }
            for back in 1..=40.min(len) {
                list.push(Damage::Truncate(len - back));
            }
            for _ in 0..60 {
                list.push(Damage::Truncate(rng.range(0, len.saturating_sub(1))));
            }
            return Case::L1 {
                file,
                damages: Damages::List(list),
                via_file: rng.chance(1, 2),
            };
        }
        if idx % 10 != 9 && rng.chance(1, 60) {
            // a large file (>= 1,024 values of 8 bytes): readers may take different paths for
            // large buffers
            let n = rng.range(1024, 1300);
            let shape = if rng.chance(1, 2) { vec![n] } else { vec![2, n / 2] };
            let cnt: usize = shape.iter().product();
            let file = if rng.chance(1, 2) {
                FileSpec::Npy(NpySpec {
                    version: *rng.pick(&[1u8, 2, 3]),
                    endian: '<',
                    dtype: "f8".into(),
                    shape,
                    spelling: rng.below(12) as u8,
                    raw: (0..cnt).map(|i| (i % 97) as i64).collect(),
                })
            } else {
                FileSpec::NpyWritten(Spec::from_vals(shape, &(0..cnt).map(|i| (i % 89) as f64 * 0.25).collect::<Vec<_>>()))
            };
            return Case::L1 {
                file,
                damages: Damages::All,
                via_file: rng.chance(1, 2),
            };
        }
        let file = match rng.below(10) {
            0..=3 => FileSpec::Npy(gen::gen_npy_spec(&mut rng, max_axes, max_len, max_elems)),
            4..=6 => FileSpec::NpyWritten(gen::gen_spec(&mut rng, max_axes, max_len, max_elems, false)),
            _ => FileSpec::Text {
                spec: gen::gen_spec(&mut rng, max_axes, max_len, max_elems, false),
                precision: rng.range(0, 12),
            },
        };
        if idx % 10 == 9 {
            let img = image(&file).unwrap_or_default();
            let mut all = all_damages(&file, &img);
            rng.shuffle(&mut all);
            // one damage per class first, then random ones
            let mut seen = vec![];
            let mut picked = vec![];
            for d in &all {
                let c = damage_class(&file, &img, d);
                if !seen.contains(&c) {
                    seen.push(c);
                    picked.push(d.clone());
                }
            }
            picked.truncate(if thorough { 24 } else { 10 });
            let kill_points = if is_text(&file) {
                vec![]
            } else {
                (0..if thorough { 6 } else { 2 }).map(|_| rng.range(0, img.len().saturating_sub(1))).collect()
            };
            return Case::L2 {
                file,
                cmd: rng.pick(&["view", "fold", "stat"]).to_string(),
                damages: picked,
                kill_points,
                stdin: rng.chance(1, 3),
            };
        }
        let via_file = is_text(&file) || rng.chance(1, 4);
        Case::L1 {
            file,
            damages: Damages::All,
            via_file,
        }
    }

    fn run(&self, case: &Case, ctx: &mut Ctx) -> Outcome {
        let mut out = Outcome {
            digest: FNV_INIT,
            ..Default::default()
        };
        match case {
            Case::L1 { file, damages, via_file } => {
                let Some(img) = image(file) else {
                    out.inconclusive += 1;
                    return out;
                };
                // fault-free control: the undamaged file must be accepted (guards the oracle
                // against a reader that rejects everything)
                let control = read_image(ctx, &img, *via_file);
                out.evals += 1;
                out.steps += 1;
                out.digest = fnv_u64(out.digest, fnv1a(control.class().as_bytes()));
                if !control.is_ok() {
                    out.count("control_not_accepted", 1);
                    if !matches!(file, FileSpec::Npy(_)) {
                        // a file sfs itself wrote must read back: that is C07's clause, reported there;
                        // here it only means the damage oracle cannot be applied
                        out.count("control_not_accepted.own_file", 1);
                    }
                    // the damage oracle is applied all the same: what C16 says about prefixes,
                    // extensions and miscounted files does not depend on the complete file being
                    // read (no control is rejected on the unchanged tree)
                } else {
                    out.count(&format!("control_accepted.{}", key_file_kind(file)), 1);
                }
                if img.len() >= 8192 {
                    out.count("size.at_least_1024_values", 1);
                }
                if img.len() >= 65536 {
                    out.count("size.at_least_8192_values", 1);
                }
                if img.len() > 8 * 65535 {
                    out.count("size.more_than_65535_values", 1);
                }
                let list = match damages {
                    Damages::All => all_damages(file, &img),
                    Damages::List(l) => l.clone(),
                };
                for d in &list {
                    let Some(bad) = apply(file, &img, d) else {
                        out.count("damage_not_applicable", 1);
                        continue;
                    };
                    let r = read_image(ctx, &bad, *via_file);
                    out.evals += 1;
                    out.steps += 1;
                    let class = damage_class(file, &img, d);
                    out.count(&format!("fault.{class}"), 1);
                    out.count(&format!("result.{}", r.class()), 1);
                    out.digest = fnv_u64(out.digest, fnv1a(r.class().as_bytes()));
                    out.nontrivial.push(fnv_u64(fnv1a(&bad), *via_file as u64));
                    out.sigs.push(fnv1a(format!("{}/{class}/{}", key_file_kind(file), r.class()).as_bytes()));
                    if let Res::Ok((shape, vals)) = &r {
                        out.violate(
                            "damaged_file_accepted",
                            format!("C16 {} {class} accepted", key_file_kind(file)),
                            format!(
                                "{} damage={d:?} of {} bytes read as shape={shape:?} with {} values (via_file={via_file})",
                                file_kind(file),
                                img.len(),
                                vals.len()
                            ),
                        );
                    }
                }
            }
            Case::L2 {
                file,
                cmd,
                damages,
                kill_points,
                stdin,
            } => {
                let Some(img) = image(file) else {
                    out.inconclusive += 1;
                    return out;
                };
                let mut cmd_args: Vec<String> = vec![cmd.clone()];
                // option variants are a function of the case (no randomness at run time)
                let variant = (damages.len() + kill_points.len() + img.len()) % 4;
                let mut header_line: Option<&str> = None;
                let mut out_file = false;
                match (cmd.as_str(), variant) {
                    ("stat", 0) => cmd_args.extend(["-s".into(), "sum".into()]),
                    ("stat", 1) => {
                        cmd_args.extend(["-s".into(), "sum".into(), "-H".into()]);
                        header_line = Some("sum\n");
                    }
                    ("stat", 2) => cmd_args.extend(["-s".into(), "sum,s".into()]),
                    ("stat", _) => {
                        cmd_args.extend(["-s".into(), "s,sum".into(), "-H".into(), "-d".into(), ";".into()]);
                        header_line = Some("segregating_sites;sum\n");
                    }
                    ("view", 1) => cmd_args.extend(["-O".into(), "npy".into()]),
                    ("view", 2) | ("fold", 2) => {
                        cmd_args.extend(["-o".into(), "@DIR@/out.sfs".into()]);
                        out_file = true;
                    }
                    ("view", 3) => cmd_args.extend(["--precision".into(), "3".into(), "-n".into()]),
                    ("fold", 3) => cmd_args.extend(["--fill".into(), "zero".into()]),
                    _ => {}
                }
                let fname = match (is_text(file), (img.len() + damages.len()) % 3) {
                    (false, 0) => "in.npy",
                    (true, 0) => "in.sfs",
                    (false, 1) => "in.sfs",
                    (true, 1) => "in.npy",
                    _ => "in.dat",
                };
                let run_on = |ctx: &mut Ctx, bytes: &[u8]| {
                    let mut args = cmd_args.clone();
                    let child = if *stdin {
                        Child {
                            args,
                            env: vec![],
                            stdin: Stdin::File(gen::hex(bytes)),
                            plan: None,
                            files: vec![],
                        }
                    } else {
                        args.push(format!("@DIR@/{fname}"));
                        Child {
                            args,
                            env: vec![],
                            stdin: Stdin::Null,
                            plan: None,
                            files: vec![(fname.into(), gen::hex(bytes))],
                        }
                    };
                    let mut r = l2::run_child(ctx, &child);
                    if out_file {
                        // what the -o file holds afterwards is judged like stdout
                        let written = std::fs::read(r.dir.join("out.sfs")).unwrap_or_default();
                        r.stdout.extend_from_slice(&written);
                    }
                    l2::cleanup(&r);
                    r
                };
                let control = run_on(ctx, &img);
                out.evals += 1;
                out.count("l2.runs", 1);
                out.digest = fnv_u64(out.digest, control.digest());
                if !control.ok() {
                    out.count("control_not_accepted", 1);
                    return out;
                }
                let mut bads: Vec<(String, Vec<u8>)> = vec![];
                for d in damages {
                    if let Some(b) = apply(file, &img, d) {
                        bads.push((damage_class(file, &img, d) + &format!(" {d:?}"), b));
                    }
                }
                // crash points: the tool itself is killed after k bytes while writing the file
                for &k in kill_points {
                    let child = Child {
                        args: vec!["view".into(), "-O".into(), "npy".into(), "-o".into(), "@DIR@/out.npy".into(), "@DIR@/in.sfs".into()],
                        env: vec![],
                        stdin: Stdin::Null,
                        plan: Some(Plan {
                            output: Some(Target::File("out.npy".into())),
                            wr_kill: Some(k),
                            ..Default::default()
                        }),
                        files: vec![("in.sfs".into(), gen::hex(&img))],
                    };
                    let r = l2::run_child(ctx, &child);
                    let produced = std::fs::read(r.dir.join("out.npy")).unwrap_or_default();
                    l2::cleanup(&r);
                    out.evals += 1;
                    out.count("l2.runs", 1);
                    if r.code == Some(137) {
                        out.count("fault.l2.kill_mid_write", 1);
                        bads.push((format!("torn_by_kill@{k} ({} bytes left)", produced.len()), produced));
                    }
                }
                for (what, bad) in &bads {
                    let r = run_on(ctx, bad);
                    out.evals += 1;
                    out.count("l2.runs", 1);
                    out.steps += 1;
                    out.digest = fnv_u64(out.digest, r.digest());
                    out.nontrivial.push(fnv_u64(fnv1a(bad), fnv1a(cmd.as_bytes())));
                    if l2::inconclusive(&r) {
                        out.inconclusive += 1;
                        continue;
                    }
                    let class = what.split(' ').next().unwrap_or("").to_string();
                    out.count(&format!("fault.l2.{}", class.split('@').next().unwrap_or("")), 1);
                    out.sigs.push(fnv1a(format!("{cmd}/{class}/{}", r.status_class()).as_bytes()));
                    // with -H a header line alone is not a statistics row
                    let wrote = !r.stdout.is_empty() && Some(r.stdout.as_slice()) != header_line.map(|h| h.as_bytes());
                    if r.ok() || wrote {
                        // a valid torn file can only arise if the kill left the complete file
                        if what.starts_with("torn_by_kill") && *bad == img {
                            continue;
                        }
                        out.violate(
                            "damaged_file_accepted_by_cli",
                            format!("C16 L2 {cmd} {} {} accepted", key_file_kind(file), class.split('@').next().unwrap_or("")),
                            format!(
                                "sfs {cmd} on {} with {what}: {} stdout={} bytes stderr={}",
                                file_kind(file),
                                r.status_class(),
                                r.stdout.len(),
                                crate::harness::truncate(&r.stderr_text(), 200)
                            ),
                        );
                    }
                }
            }
        }
        out
    }

    fn shrink(&self, case: &Case) -> Vec<Case> {
        let mut v = vec![];
        match case {
            Case::L1 { file, damages, via_file } => {
                match damages {
                    Damages::All => {
                        if let Some(img) = image(file) {
                            v.push(Case::L1 {
                                file: file.clone(),
                                damages: Damages::List(all_damages(file, &img)),
                                via_file: *via_file,
                            });
                        }
                    }
                    Damages::List(l) if l.len() > 1 => {
                        let (a, b) = l.split_at(l.len() / 2);
                        v.push(Case::L1 { file: file.clone(), damages: Damages::List(a.to_vec()), via_file: *via_file });
                        v.push(Case::L1 { file: file.clone(), damages: Damages::List(b.to_vec()), via_file: *via_file });
                    }
                    _ => {}
                }
                for f in shrink_file(file) {
                    // every damage for small files; for large ones (cost grows with the square of the
                    // length) every extension, the cuts in the header and in the last values, and
                    // evenly spaced cuts
                    let damages = match image(&f) {
                        Some(img) if img.len() > 20_000 => {
                            let len = img.len();
                            let mut list = vec![];
                            for kind in 0..5u8 {
                                for n in 1..=16 {
                                    list.push(Damage::Extend { kind, n });
                                }
                            }
                            list.extend((0..160).map(Damage::Truncate));
                            list.extend((1..=40).map(|back| Damage::Truncate(len - back)));
                            list.extend((1..60).map(|i| Damage::Truncate(i * (len / 60) + i % 8)));
                            Damages::List(list)
                        }
                        _ => Damages::All,
                    };
                    v.push(Case::L1 {
                        file: f,
                        damages,
                        via_file: *via_file,
                    });
                }
            }
            Case::L2 {
                file,
                cmd,
                damages,
                kill_points,
                stdin,
            } => {
                if damages.len() + kill_points.len() > 1 {
                    let (a, b) = damages.split_at(damages.len() / 2);
                    let (ka, kb) = kill_points.split_at(kill_points.len() / 2);
                    v.push(Case::L2 { file: file.clone(), cmd: cmd.clone(), damages: a.to_vec(), kill_points: ka.to_vec(), stdin: *stdin });
                    v.push(Case::L2 { file: file.clone(), cmd: cmd.clone(), damages: b.to_vec(), kill_points: kb.to_vec(), stdin: *stdin });
                }
            }
        }
        v
    }

    fn sample(&self, case: &Case) -> Value {
        match case {
            Case::L1 { file, damages, via_file } => {
                let n = image(file).map(|i| all_damages(file, &i).len()).unwrap_or(0);
                json!({"layer":"L1","file":file_kind(file),"shape":shape_of(file),"damages": match damages { Damages::All => format!("all {n} (every truncation offset, every extension 1..16 x 4 kinds / every token edit)"), Damages::List(l) => format!("{l:?}") },
                       "reader": if *via_file {"read::Builder::read on a scratch file"} else {"Array::read_npy on the byte image"}})
            }
            Case::L2 { file, cmd, damages, kill_points, stdin } => {
                json!({"layer":"L2","cmd":format!("sfs {cmd}"),"file":file_kind(file),"shape":shape_of(file),"damages":format!("{damages:?}"),"kill_points":kill_points,"transport": if *stdin {"stdin"} else {"path"}})
            }
        }
    }

    fn rule(&self) -> String {
        "A case is one valid spectrum file (numpy-style npy of any dtype/byte order/version/spelling, npy or text written by sfs itself). \
         Layer L1 enumerates the damage space of that file exhaustively: every truncation offset 0..len-1, every extension of 1..16 bytes in four content kinds \
         (zeros, random, copy of the tail, head of a valid file), and for text every single-token removal/duplication and shape edit whose result has count != product(shape); \
         each damaged image is handed to Array::read_npy or read::Builder::read. Every 10th case (L2) runs sfs view/fold/stat on one damage per class and on prefixes the tool itself \
         leaves when killed mid-write. An evaluation is one read of one image; distinct non-trivial = distinct damaged byte images (by content hash) x reader."
            .to_string()
    }

    fn assumptions(&self) -> Vec<String> {
        vec![
            "A panic on a damaged file counts as 'not accepted' here; panics are C17's subject (one defect, one property)".into(),
            "At process level the damage oracle is applied only to files whose undamaged form is accepted by the same command (fault-free control); at library level it is applied to every generated file, and the number of rejected controls is reported (zero on the unchanged tree)".into(),
            "Text edits that leave count == product(shape) produce a valid file and are skipped".into(),
        ]
    }

    fn components(&self) -> Value {
        json!({
            "real": ["sfs_core::Array::read_npy", "sfs_core::spectrum::io::read::Builder::read (format detection + text/npy parsers)", "write::Builder::write (to produce sfs-written files)", "L2: sfs view/fold/stat binary"],
            "stubbed": ["SimDisk: byte images / scratch files with crash-at-byte-k, stale-tail and token-edit damage", "L2: write(2) on the -o file (wr.kill crash points)"]
        })
    }

    fn expected_probes(&self) -> Vec<&'static str> {
        vec![
            "fault.truncate@magic",
            "fault.truncate@version",
            "fault.truncate@header_len",
            "fault.truncate@dict",
            "fault.truncate@padding",
            "fault.truncate@mid_value",
            "fault.truncate@value_boundary",
            "fault.extend/zeros/multiple_of_8",
            "fault.text_drop_token",
            "fault.text_shape_edit_0",
            "fault.text_append_duplicate_value_line",
            "fault.text_append_concatenated_file",
            "fault.text_truncate",
            "fault.extend/ascii_whitespace/odd_len",
            "fault.npy_shape_edit_overflowing_product",
            "fault.text_shape_edit_4",
            "size.at_least_1024_values",
            "fault.l2.kill_mid_write",
            "control_accepted.npy",
        ]
    }
}

fn shrink_file(file: &FileSpec) -> Vec<FileSpec> {
    let mut v = vec![];
    match file {
        FileSpec::Npy(s) => {
            if s.shape.len() > 1 {
                let mut t = s.clone();
                t.shape = vec![s.raw.len()];
                v.push(FileSpec::Npy(t));
            }
            if s.raw.len() > 1 {
                let mut t = s.clone();
                t.raw.truncate(s.raw.len() / 2);
                t.shape = vec![t.raw.len()];
                v.push(FileSpec::Npy(t));
            }
            if s.spelling != 0 {
                let mut t = s.clone();
                t.spelling = 0;
                v.push(FileSpec::Npy(t));
            }
        }
        FileSpec::NpyWritten(s) => {
            if s.bits.len() > 1 {
                let n = s.bits.len() / 2;
                v.push(FileSpec::NpyWritten(Spec { shape: vec![n], bits: s.bits[..n].to_vec() }));
            }
        }
        FileSpec::Text { spec, precision } => {
            if spec.bits.len() > 1 {
                let n = spec.bits.len() / 2;
                v.push(FileSpec::Text { spec: Spec { shape: vec![n], bits: spec.bits[..n].to_vec() }, precision: *precision });
            }
            if spec.bits.iter().any(|&b| b != 1f64.to_bits()) {
                v.push(FileSpec::Text { spec: Spec { shape: spec.shape.clone(), bits: vec![1f64.to_bits(); spec.bits.len()] }, precision: *precision });
            }
        }
    }
    v
}
