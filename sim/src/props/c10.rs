//! C10 — every record is counted once or reported skipped; strict mode; no partial output.
//!
//! Conservation law + all-or-nothing under fault sequences: a failure (source error, ploidy
//! error, strict violation, malformed line, truncated BCF record, corrupt BGZF block, read
//! error at a record boundary) is placed at *every* record index of the stream in turn.

use serde::{Deserialize, Serialize};
use serde_json::{json, Value};

use crate::{
    gen::{self, CallSet, CallSetParams, Config, Container, Layout},
    harness::{Ctx, Outcome, Prop, Tier},
    l1::{self, Res},
    l2::{self, Child, ChildResult, Plan, Stdin, Target},
    rng::{fnv1a, fnv_u64, Rng, FNV_INIT},
    simgeno::{gt_to_g, Item, SimGenotypeSource, G_MISSING, G_PLOIDY},
};

#[derive(Clone, Copy, Debug, PartialEq, Serialize, Deserialize)]
pub enum Fault {
    None,
    SourceError,
    PloidySelected,
    PloidyUnselected,
    /// a record the non-strict run skips, with `--strict`
    StrictViolation,
    // --- L2 only
    MalformedPos,
    MalformedColumns,
    MalformedGt,
    BcfRecordCut,
    BgzfCorruptData,
    BgzfCorruptCrc,
    ReadErrorAtRecord,
    /// the configuration itself is inadmissible: a listed sample that is not in the input
    UnknownSample,
    /// projection target larger than the population / of the wrong dimensionality
    BadProjection,
    /// --precision beyond what the text writer can honour (an inadmissible request that is only
    /// noticed when the result is written)
    BadPrecision,
}

#[derive(Clone, Debug, Serialize, Deserialize)]
pub enum Positions {
    All,
    List(Vec<usize>),
}

#[derive(Clone, Debug, Serialize, Deserialize)]
pub struct Case {
    pub l2: bool,
    pub callset: CallSet,
    pub cfg: Config,
    pub fault: Fault,
    pub positions: Positions,
    /// a second failure later in the stream (checks "first")
    pub second: Option<Fault>,
    pub container: Container,
    /// number of -v flags (0 = default verbosity, 3 = -q, 4 = -qq); the skip accounting must not depend on it
    #[serde(default)]
    pub verbosity: u8,
    /// L2: the sample list is passed through a samples file (-S) instead of -s
    #[serde(default)]
    pub samples_file: bool,
    /// L2: the input arrives on stdin in read chunks of (first, rest) bytes instead of by path
    #[serde(default)]
    pub stdin_chunks: Option<(usize, usize)>,
}

pub struct C10;

fn items_of(cs: &CallSet) -> Vec<Item> {
    cs.recs
        .iter()
        .map(|r| Item::Rec {
            contig: cs.contig_name(r.contig),
            pos: r.pos as usize,
            g: r.gts.iter().map(|g| if r.no_gt { G_MISSING } else { gt_to_g(g) }).collect(),
        })
        .collect()
}

fn site_name(cs: &CallSet, i: usize) -> String {
    format!("{}:{}", cs.contig_name(cs.recs[i].contig), cs.recs[i].pos)
}

fn selected(cs: &CallSet, cfg: &Config) -> (Vec<usize>, Vec<usize>) {
    let (pops, _) = cfg.pops_of(&cs.samples);
    let sel = (0..cs.samples.len()).filter(|&i| pops[i].is_some()).collect();
    let unsel = (0..cs.samples.len()).filter(|&i| pops[i].is_none()).collect();
    (sel, unsel)
}

/// applies an L1 fault at record index i (returns None if not applicable)
fn inject_l1(cs: &CallSet, cfg: &Config, items: &mut Vec<Item>, fault: Fault, i: usize) -> Option<()> {
    let (sel, unsel) = selected(cs, cfg);
    match fault {
        Fault::None => Some(()),
        Fault::SourceError => {
            // the i-th record of the stream (records may share their site name, so the position is
            // found by counting, not by name)
            let pos = items.iter().enumerate().filter(|(_, it)| matches!(it, Item::Rec { .. })).nth(i).map(|(k, _)| k)?;
            items.insert(
                pos,
                Item::SourceError {
                    contig: cs.contig_name(cs.recs[i].contig),
                    pos: cs.recs[i].pos as usize,
                    kind: (i % 5) as u8,
                },
            );
            Some(())
        }
        Fault::PloidySelected | Fault::PloidyUnselected | Fault::StrictViolation => {
            let who = match fault {
                Fault::PloidyUnselected => *unsel.get(i % unsel.len().max(1))?,
                _ => *sel.get(i % sel.len().max(1))?,
            };
            // the i-th record of the stream, found by counting (site names need not be unique)
            match items.iter_mut().filter(|it| matches!(it, Item::Rec { .. })).nth(i)? {
                Item::Rec { g, .. } => {
                    g[who] = if fault == Fault::StrictViolation { G_MISSING } else { G_PLOIDY };
                    Some(())
                }
                _ => None,
            }
        }
        _ => None,
    }
}

fn sum_bits(bits: &[u64]) -> f64 {
    bits.iter().map(|b| f64::from_bits(*b)).sum()
}

struct L1Run {
    out: l1::CreateOut,
    delivered: u64,
    reads: u64,
}

fn l1_run(cs: &CallSet, cfg: &Config, items: Vec<Item>) -> L1Run {
    let (src, stats) = SimGenotypeSource::new(&cs.samples, items);
    let out = l1::create_from_genotype_reader(Box::new(src), cfg);
    let st = stats.borrow();
    L1Run {
        out,
        delivered: st.delivered,
        reads: st.reads,
    }
}

fn conservation(out: &mut Outcome, layer: &str, total: f64, cells: usize, skipped: Option<(usize, usize)>, n: u64, proj: bool, detail: &str) {
    let (sk, y) = skipped.map(|(a, b)| (a as f64, Some(b))).unwrap_or((0.0, None));
    let tol = if proj { cells as f64 * 0.5e-12 + 1e-9 * n.max(1) as f64 } else { 0.0 };
    out.count("conservation_checked", 1);
    // written so that a NaN total fails the comparison
    if !((total + sk - n as f64).abs() <= tol) {
        out.violate(
            "conservation",
            format!("C10 {layer} mass + skipped != records projection={proj}"),
            format!("{detail}: sum(output)={total} skipped={sk} records={n}"),
        );
    }
    if let Some(y) = y {
        if y as u64 != n {
            out.violate(
                "conservation_total",
                format!("C10 {layer} 'Skipped X/Y': Y != records"),
                format!("{detail}: Y={y} records={n}"),
            );
        }
    }
}

impl Prop for C10 {
    type Case = Case;
    fn id(&self) -> &'static str {
        "C10"
    }
    fn isolate(&self) -> bool {
        true
    }
    fn level(&self) -> &'static str {
        "fault_enumeration"
    }
    fn n_cases(&self, tier: Tier) -> u64 {
        match tier {
            Tier::Quick => 6000,
            Tier::Thorough => 80000,
        }
    }

    fn gen(&self, seed: u64, idx: u64, tier: Tier) -> Case {
        let mut rng = Rng::new(seed);
        let l2 = idx % 12 == 11;
        let big = tier == Tier::Thorough && rng.chance(1, 40) && !l2;
        let mut p = CallSetParams::standard(if big { 40 } else { 12 }, if l2 { 12 } else if big { 3000 } else { 40 });
        p.allow_strict = false;
        p.allow_no_gt = true;
        // one case in 12: a large cohort (the projection's tables and counters leave their
        // small-data range), few records
        if idx % 12 == 7 && !l2 {
            p.big_cohort = true;
            p.max_recs = 12;
        }
        let (mut callset, mut cfg) = gen::gen_callset(&mut rng, &p);
        // L2, now and then: an input of more than 160 KB, delivered through a pipe-like stdin
        let big_l2 = l2 && idx % 96 == 23;
        if big_l2 {
            gen::pad_callset(&mut callset, 160_000);
        }
        if callset.recs.is_empty() {
            let s = callset.samples.clone();
            callset.recs.push(gen::gen_rec(&mut rng, 0, &s, &cfg, 0, 7));
        }
        let l1_faults = [
            Fault::None,
            Fault::SourceError,
            Fault::PloidySelected,
            Fault::PloidyUnselected,
            Fault::StrictViolation,
        ];
        let l2_faults = [
            Fault::None,
            Fault::PloidySelected,
            Fault::PloidyUnselected,
            Fault::StrictViolation,
            Fault::MalformedPos,
            Fault::MalformedColumns,
            Fault::MalformedGt,
            Fault::BcfRecordCut,
            Fault::BgzfCorruptData,
            Fault::BgzfCorruptCrc,
            Fault::ReadErrorAtRecord,
            Fault::UnknownSample,
            Fault::BadProjection,
            Fault::BadPrecision,
        ];
        let fault = if big_l2 {
            *rng.pick(&[Fault::None, Fault::None, Fault::StrictViolation, Fault::PloidySelected])
        } else if l2 {
            *rng.pick(&l2_faults)
        } else {
            *rng.pick(&l1_faults)
        };
        if fault == Fault::StrictViolation || (fault == Fault::None && rng.chance(1, 2)) {
            // strict mode conflicts with projection on the command line
            cfg.project = None;
            cfg.strict = true;
        }
        let container = match fault {
            Fault::BcfRecordCut => *rng.pick(&[Container::Bcf, Container::BcfRaw]),
            Fault::BgzfCorruptData | Fault::BgzfCorruptCrc => *rng.pick(&[Container::Bcf, Container::VcfGz]),
            Fault::MalformedPos | Fault::MalformedColumns | Fault::MalformedGt => *rng.pick(&[Container::Vcf, Container::VcfGz]),
            _ => *rng.pick(&Container::ALL),
        };
        let n = callset.recs.len();
        let positions = if big_l2 {
            Positions::List((0..3).map(|_| rng.range(0, n - 1)).collect())
        } else if n <= 40 {
            Positions::All
        } else {
            Positions::List((0..24).map(|_| rng.range(0, n - 1)).collect())
        };
        let second = if rng.chance(1, 5) && fault != Fault::None {
            Some(*rng.pick(&[Fault::SourceError, Fault::PloidySelected]))
        } else {
            None
        };
        Case {
            l2,
            callset,
            cfg,
            fault,
            positions,
            second,
            container,
            verbosity: if l2 { *rng.pick(&[0u8, 0, 1, 2, 3, 4]) } else { *rng.pick(&[0u8, 0, 1, 2]) },
            samples_file: l2 && rng.chance(1, 3),
            stdin_chunks: if big_l2 || (l2 && rng.chance(1, 4)) {
                Some((
                    *rng.pick(&[1usize, 2, 3, 100, 192, 1000, 1024, 4096, 5000, 65535, 65537]),
                    *rng.pick(&[7usize, 100, 1000, 1024, 4096, 8192, 65536]),
                ))
            } else {
                None
            },
        }
    }

    fn run(&self, case: &Case, ctx: &mut Ctx) -> Outcome {
        let mut out = Outcome {
            digest: FNV_INIT,
            ..Default::default()
        };
        let n = case.callset.recs.len();
        let positions: Vec<usize> = match &case.positions {
            Positions::All => (0..n).collect(),
            Positions::List(l) => l.iter().copied().filter(|&i| i < n).collect(),
        };
        let positions = if case.fault == Fault::None { vec![0] } else { positions };
        l1::set_verbosity(case.verbosity);
        out.count(&format!("verbosity.{}", case.verbosity), 1);
        for &i in &positions {
            if case.l2 {
                run_l2_at(case, i, ctx, &mut out);
            } else {
                run_l1_at(case, i, &mut out);
            }
        }
        l1::set_verbosity(2);
        out
    }

    fn shrink(&self, case: &Case) -> Vec<Case> {
        let mut v = vec![];
        let n = case.callset.recs.len();
        match &case.positions {
            Positions::All if n > 1 => {
                v.push(Case { positions: Positions::List((0..n).collect()), ..case.clone() });
            }
            Positions::List(l) if l.len() > 1 => {
                let (a, b) = l.split_at(l.len() / 2);
                v.push(Case { positions: Positions::List(a.to_vec()), ..case.clone() });
                v.push(Case { positions: Positions::List(b.to_vec()), ..case.clone() });
            }
            _ => {}
        }
        if case.second.is_some() {
            v.push(Case { second: None, ..case.clone() });
        }
        // dropping records after the fault position keeps the position valid
        if let Positions::List(l) = &case.positions {
            if l.len() == 1 {
                let i = l[0];
                if i + 1 < n {
                    let mut cs = case.callset.clone();
                    cs.recs.truncate(i + 1 + (n - i - 1) / 2);
                    v.push(Case { callset: cs, ..case.clone() });
                }
                if i > 0 {
                    // drop a record before the fault and shift the position
                    for k in 0..i.min(12) {
                        let mut cs = case.callset.clone();
                        cs.recs.remove(k);
                        v.push(Case { callset: cs, positions: Positions::List(vec![i - 1]), ..case.clone() });
                    }
                }
            }
        }
        if case.cfg.project.is_some() {
            let mut c = case.cfg.clone();
            c.project = None;
            v.push(Case { cfg: c, ..case.clone() });
        }
        if case.verbosity != 0 {
            v.push(Case { verbosity: 0, ..case.clone() });
        }
        if case.stdin_chunks.is_some() {
            v.push(Case { stdin_chunks: None, ..case.clone() });
        }
        if case.samples_file {
            v.push(Case { samples_file: false, ..case.clone() });
        }
        if case.callset.extra_info {
            let mut cs = case.callset.clone();
            cs.extra_info = false;
            v.push(Case { callset: cs, ..case.clone() });
        }
        if case.container != Container::Vcf && !matches!(case.fault, Fault::BcfRecordCut | Fault::BgzfCorruptData | Fault::BgzfCorruptCrc) {
            v.push(Case { container: Container::Vcf, ..case.clone() });
        }
        v
    }

    fn sample(&self, case: &Case) -> Value {
        json!({
            "layer": if case.l2 {"L2"} else {"L1"},
            "records": case.callset.recs.len(), "samples": case.callset.samples.len(),
            "config": case.cfg, "fault": format!("{:?}", case.fault), "second_fault": format!("{:?}", case.second),
            "fault_positions": match &case.positions { Positions::All => "every record index".to_string(), Positions::List(l) => format!("{l:?}") },
            "container": case.container.name(), "verbosity_flags": case.verbosity, "samples_via_file": case.samples_file, "stdin_chunks": case.stdin_chunks,
            "first_record": case.callset.recs.first().map(|r| case.callset.rec_text(r)),
        })
    }

    fn rule(&self) -> String {
        "A case is a call set (<= 40 records quick; up to 3,000 sampled-position thorough), a configuration (sample map, optional projection or --strict) and one fault kind; the fault is placed \
         at every record index in turn (exhaustive per case), optionally with a second, later fault. L1: SimGenotypeSource -> site::Reader -> real Runner; L2 (every 12th case): real binary on \
         crafted VCF/BGZF/BCF files incl. malformed lines, truncated BCF records, corrupted BGZF blocks and shim read errors at record boundaries. Evaluations = Runner runs + child processes. \
         Distinct non-trivial = distinct (call set, configuration, fault kind, fault position)."
            .to_string()
    }

    fn assumptions(&self) -> Vec<String> {
        vec![
            "'Would be skipped' is taken from the tool's own non-strict run (-v prints every skipped site), so the strict clause is independent of genotype classification (C08)".into(),
            "For malformed or corrupt records no demand to fail is made (how lenient noodles is, is not sfs's contract); such runs are judged by the all-or-nothing clause only".into(),
            "With projection, conservation tolerance is cells*0.5e-12 + 1e-9*N (each hypergeometric row sums to one up to rounding; L2 prints 12 decimals)".into(),
            "A ploidy error in a selected sample must make the run fail and name the site (documented behaviour, also stated by C08)".into(),
        ]
    }

    fn components(&self) -> Value {
        json!({
            "real": ["site::Reader", "cli Runner::run incl. strict handling and skip accounting (include!)", "L2: sfs create binary incl. Create::run, noodles parsers"],
            "stubbed": ["SimGenotypeSource (L1 record stream with faults)", "L1 glue replicating Create::run", "L2: read(2) errors at record offsets (shim)"]
        })
    }

    fn expected_probes(&self) -> Vec<&'static str> {
        vec![
            "conservation_checked",
            "strict_checked.violation",
            "strict_checked.no_violation",
            "fault.l1.SourceError",
            "fault.l1.PloidySelected",
            "fault.l1.PloidyUnselected",
            "fault.l2.MalformedPos",
            "fault.l2.BcfRecordCut",
            "fault.l2.BgzfCorruptData",
            "fault.l2.ReadErrorAtRecord",
            "fault.l2.UnknownSample",
            "fault.l2.BadProjection",
            "all_or_nothing_checked",
        ]
    }
}

fn run_l1_at(case: &Case, i: usize, out: &mut Outcome) {
    let cs = &case.callset;
    let mut cfg = case.cfg.clone();
    let mut items = items_of(cs);
    if case.fault == Fault::StrictViolation {
        cfg.strict = true;
    }
    if inject_l1(cs, &cfg, &mut items, case.fault, i).is_none() {
        out.count("fault_not_applicable", 1);
        return;
    }
    let mut second_at = None;
    if let Some(f2) = case.second {
        if i + 1 < cs.recs.len() {
            let j = i + 1 + (i * 7 + 3) % (cs.recs.len() - i - 1);
            if inject_l1(cs, &cfg, &mut items, f2, j).is_some() {
                second_at = Some(j);
            }
        }
    }
    let proj = cfg.project.is_some();
    let run = l1_run(cs, &cfg, items.clone());
    out.evals += 1;
    out.steps += run.reads;
    out.digest = fnv_u64(out.digest, fnv1a(format!("{:?}{:?}", run.out.result, run.out.skipped_summary).as_bytes()));
    out.nontrivial.push(fnv1a(format!("{items:?}{cfg:?}").as_bytes()));
    out.sigs.push(fnv1a(format!("{:?}/{}/{}", case.fault, run.out.result.class(), run.out.stage).as_bytes()));
    if run.out.stage == "build_site" {
        out.count("config_rejected", 1);
        return;
    }
    if case.fault != Fault::None {
        out.count(&format!("fault.l1.{:?}", case.fault), 1);
    }
    let detail = || format!("fault {:?} at record {i} ({}) second={:?}@{second_at:?} cfg={cfg:?} n={}", case.fault, site_name(cs, i), case.second, cs.recs.len());
    if let Res::Panic(p) = &run.out.result {
        out.violate("panic", format!("C10 L1 panic {}", l1::panic_key(p)), format!("{}: {p}", detail()));
        return;
    }
    // hard failures present in the stream, in input order
    let mut hard: Vec<usize> = vec![];
    if matches!(case.fault, Fault::SourceError | Fault::PloidySelected) {
        hard.push(i);
    }
    if let (Some(Fault::SourceError | Fault::PloidySelected), Some(j)) = (case.second, second_at) {
        hard.push(j);
    }
    let hard_first: Option<usize> = hard.into_iter().min();
    out.count("all_or_nothing_checked", 1);
    if let Some(h) = hard_first {
        match &run.out.result {
            Res::Ok(_) => out.violate(
                "partial_result_after_failure",
                format!("C10 L1 {:?} in the stream but Runner returns Ok", case.fault),
                detail(),
            ),
            Res::Err(msg) => {
                // a ploidy error must name its site (for a source I/O error only failing is demanded)
                let first_is_ploidy = (h == i && case.fault == Fault::PloidySelected)
                    || (Some(h) == second_at && h != i && case.second == Some(Fault::PloidySelected));
                // strict mode stops earlier, at the first site the non-strict run would skip (taken
                // from a non-strict run over the records before the fault): "fails at the first record
                // in input order that would be skipped". A ploidy error is found when its record is
                // processed, i.e. after that site, so it cannot legitimately win; for a source I/O
                // error nothing is demanded here (an implementation may read ahead).
                if first_is_ploidy && (cfg.strict || !msg.contains(&site_name(cs, h))) {
                    let (sel, _) = selected(cs, &cfg);
                    let cut = items
                        .iter()
                        .position(|it| match it {
                            Item::SourceError { .. } => true,
                            Item::Rec { g, .. } => sel.iter().any(|&s| g.get(s) == Some(&G_PLOIDY)),
                            Item::DoneOnce => false,
                        })
                        .unwrap_or(items.len());
                    let earlier = if cfg.strict {
                        let mut c2 = cfg.clone();
                        c2.strict = false;
                        l1_run(cs, &c2, items[..cut].to_vec()).out.skipped_sites.first().cloned()
                    } else {
                        None
                    };
                    let named = match &earlier {
                        Some(s) => msg.contains(s.as_str()),
                        None => msg.contains(&site_name(cs, h)),
                    };
                    if !named {
                        out.violate(
                            "failure_not_first_or_unnamed",
                            format!("C10 L1 {:?}: error does not name the first failing site", case.fault),
                            format!("{} ; message: {msg}", detail()),
                        );
                    }
                }
            }
            Res::Panic(_) => {}
        }
        return;
    }
    // no hard failure: the run must succeed unless strict mode stops it
    if cfg.strict {
        let mut c2 = cfg.clone();
        c2.strict = false;
        let relaxed = l1_run(cs, &c2, items.clone());
        out.evals += 1;
        match (&relaxed.out.result, relaxed.out.skipped_sites.first()) {
            (Res::Ok(_), Some(s1)) => {
                out.count("strict_checked.violation", 1);
                match &run.out.result {
                    Res::Err(msg) if msg.contains(s1.as_str()) => {}
                    other => out.violate(
                        "strict_first_skipped_site",
                        "C10 L1 strict run does not fail at the first site the non-strict run skips".into(),
                        format!("{} ; first skipped {s1} ; strict result {other:?}", detail()),
                    ),
                }
            }
            (Res::Ok(r), None) => {
                out.count("strict_checked.no_violation", 1);
                if run.out.result != Res::Ok(r.clone()) {
                    out.violate(
                        "strict_differs_without_violation",
                        "C10 L1 strict and non-strict results differ although nothing is skipped".into(),
                        format!("{} ; strict {:?} relaxed ok", detail(), run.out.result.class()),
                    );
                }
            }
            _ => {}
        }
        return;
    }
    match &run.out.result {
        Res::Ok((_, bits)) => conservation(out, "L1", sum_bits(bits), bits.len(), run.out.skipped_summary, run.delivered, proj, &detail()),
        Res::Err(e) => out.violate(
            "unexpected_failure",
            format!("C10 L1 run fails without a failure in the stream ({:?})", case.fault),
            format!("{} ; {e}", detail()),
        ),
        Res::Panic(_) => {}
    }
}

// ------------------------------------------------------------------------------------------ L2

/// builds the input file with the fault at record i; returns (bytes, optional shim plan, soft)
fn build_l2_input(case: &Case, i: usize) -> Option<(Vec<u8>, Option<Plan>)> {
    let cs = &case.callset;
    let (sel, unsel) = selected(cs, &case.cfg);
    let mut cs2 = cs.clone();
    let mut lines_override: Option<(usize, String)> = None;
    if matches!(case.fault, Fault::PloidySelected | Fault::PloidyUnselected | Fault::StrictViolation) {
        // the fault is carried by a GT value: the record must have a GT key
        cs2.recs[i].no_gt = false;
    }
    match case.fault {
        Fault::PloidySelected => {
            let who = *sel.get(i % sel.len().max(1))?;
            // non-diploid genotypes, with and without uncalled alleles among them
            cs2.recs[i].gts[who] = ["0", "0/1/1", "0/./1", ".|.|.", "./././.", "1/./."][i % 6].into();
        }
        Fault::PloidyUnselected => {
            let who = *unsel.get(i % unsel.len().max(1))?;
            cs2.recs[i].gts[who] = if i % 2 == 0 { "1".into() } else { "0/0/0".into() };
        }
        Fault::StrictViolation => {
            let who = *sel.get(i % sel.len().max(1))?;
            cs2.recs[i].gts[who] = "./.".into();
        }
        Fault::MalformedPos => {
            let t = cs2.rec_text(&cs2.recs[i]);
            let mut cols: Vec<&str> = t.trim_end().split('\t').collect();
            cols[1] = "abc";
            lines_override = Some((i, cols.join("\t") + "\n"));
        }
        Fault::MalformedColumns => {
            let t = cs2.rec_text(&cs2.recs[i]);
            let cols: Vec<&str> = t.trim_end().split('\t').collect();
            lines_override = Some((i, cols[..5].join("\t") + "\n"));
        }
        Fault::MalformedGt => {
            let t = cs2.rec_text(&cs2.recs[i]);
            let mut cols: Vec<String> = t.trim_end().split('\t').map(|s| s.to_string()).collect();
            let k = 9 + (i % cs2.samples.len());
            cols[k] = cols[k].replacen(|c: char| c.is_ascii_digit() || c == '.', "x", 1);
            lines_override = Some((i, cols.join("\t") + "\n"));
        }
        _ => {}
    }
    let mut vcf = cs2.header_text();
    for (k, r) in cs2.recs.iter().enumerate() {
        match &lines_override {
            Some((j, line)) if *j == k => vcf.push_str(line),
            _ => vcf.push_str(&cs2.rec_text(r)),
        }
    }
    let vcf = vcf.into_bytes();
    let layout_lines = |data: &[u8]| {
        let mut blocks = vec![];
        let mut start = 0;
        for (k, &b) in data.iter().enumerate() {
            if b == b'\n' {
                blocks.push(k + 1 - start);
                start = k + 1;
            }
        }
        Layout {
            blocks,
            eof_marker: true,
            level: 6,
        bcf_minor: 0, no_contig_lines: false,
        }
    };
    let default_layout = Layout {
        blocks: vec![],
        eof_marker: true,
        level: 6,
    bcf_minor: 0, no_contig_lines: false,
    };
    match case.fault {
        Fault::BcfRecordCut => {
            let raw = gen::vcf_to_bcf(&vcf).ok()?;
            let offs = gen::bcf_record_offsets(&raw);
            let start = *offs.get(i)?;
            let end = offs.get(i + 1).copied().unwrap_or(raw.len());
            let cut = start + 1 + (i * 5) % (end - start - 1).max(1);
            let raw = raw[..cut].to_vec();
            let bytes = if case.container == Container::Bcf {
                gen::bgzf_frame(&raw, &default_layout).0
            } else {
                raw
            };
            Some((bytes, None))
        }
        Fault::BgzfCorruptData | Fault::BgzfCorruptCrc => {
            let (payload, layout) = if case.container == Container::VcfGz {
                let l = layout_lines(&vcf);
                (vcf.clone(), l)
            } else {
                let raw = gen::vcf_to_bcf(&vcf).ok()?;
                let offs = gen::bcf_record_offsets(&raw);
                // one block per record (header in the first block)
                let mut blocks = vec![];
                let mut prev = 0;
                for &o in &offs {
                    if o > prev {
                        blocks.push(o - prev);
                        prev = o;
                    }
                }
                (
                    raw,
                    Layout {
                        blocks,
                        eof_marker: true,
                        level: 6,
                    bcf_minor: 0, no_contig_lines: false,
                    },
                )
            };
            let (mut bytes, ends) = gen::bgzf_frame(&payload, &layout);
            // the block holding record i
            let header_blocks = if case.container == Container::VcfGz {
                cs2.header_text().matches('\n').count()
            } else {
                1
            };
            let b = header_blocks + i;
            let end = *ends.get(b)?;
            let start = if b == 0 { 0 } else { ends[b - 1] };
            if case.fault == Fault::BgzfCorruptCrc {
                bytes[end - 8] ^= 0x5a;
            } else {
                let mid = start + 18 + (end - start - 26) / 2;
                bytes[mid] ^= 0x21;
            }
            Some((bytes, None))
        }
        Fault::ReadErrorAtRecord => {
            let (bytes, _) = gen::encode(&vcf, case.container, &default_layout).ok()?;
            // byte offset of record i in the *container*: exact for uncompressed containers,
            // proportional inside the single BGZF block otherwise
            let off = match case.container {
                Container::Vcf => cs2.vcf_record_offsets()[i],
                Container::BcfRaw => *gen::bcf_record_offsets(&bytes).get(i)?,
                _ => (bytes.len() * (i + 1)) / (cs2.recs.len() + 2),
            };
            let plan = Plan {
                input: Some(Target::File("in.dat".into())),
                rd_fail: vec![(off, [l2::EIO, l2::ECONNRESET, l2::ETIMEDOUT][i % 3])],
                ..Default::default()
            };
            Some((bytes, Some(plan)))
        }
        _ => {
            let layout = if case.container == Container::VcfGz && i % 2 == 0 { layout_lines(&vcf) } else { default_layout };
            let (bytes, _) = gen::encode(&vcf, case.container, &layout).ok()?;
            Some((bytes, None))
        }
    }
}

fn parse_skipped(stderr: &str) -> (Option<(usize, usize)>, Vec<String>) {
    l1::parse_skip_text(stderr.lines())
}

fn l2_create(ctx: &mut Ctx, cfg: &Config, bytes: &[u8], plan: Option<Plan>, verbose: u8, samples_file: bool, stdin_chunks: Option<(usize, usize)>) -> ChildResult {
    l2_create_with(ctx, cfg, bytes, plan, verbose, samples_file, stdin_chunks, &[])
}

/// `extra`: further command-line arguments (--threads N, --precision P)
#[allow(clippy::too_many_arguments)]
fn l2_create_with(ctx: &mut Ctx, cfg: &Config, bytes: &[u8], plan: Option<Plan>, verbose: u8, samples_file: bool, stdin_chunks: Option<(usize, usize)>, extra: &[String]) -> ChildResult {
    let mut args = vec!["create".to_string()];
    args.extend(extra.iter().cloned());
    // chunked stdin only where no other plan governs the input file
    let via_stdin = stdin_chunks.filter(|_| plan.is_none());
    let mut files = if via_stdin.is_some() { vec![] } else { vec![("in.dat".to_string(), gen::hex(bytes))] };
    if samples_file {
        let (a, content) = cfg.cli_args_with_samples_file("@DIR@/samples.txt");
        args.extend(a);
        if let Some(c) = content {
            files.push(("samples.txt".into(), gen::hex(&c)));
        }
    } else {
        args.extend(cfg.cli_args());
    }
    if cfg.project.is_some() && !extra.iter().any(|a| a == "--precision") {
        args.push("--precision".into());
        args.push("12".into());
    }
    if verbose == 3 {
        args.push("-q".into());
    } else if verbose == 4 {
        args.push("-qq".into());
    } else {
        for _ in 0..verbose {
            args.push("-v".into());
        }
    }
    let (stdin, plan) = match via_stdin {
        Some((first, rest)) => (
            Stdin::File(gen::hex(bytes)),
            Some(Plan {
                input: Some(Target::Stdin),
                rd_chunks: vec![first.max(1)],
                rd_rest: rest.max(1),
                ..Default::default()
            }),
        ),
        None => {
            args.push("@DIR@/in.dat".into());
            (Stdin::Null, plan)
        }
    };
    let child = Child {
        args,
        env: vec![],
        stdin,
        plan,
        files,
    };
    let r = l2::run_child(ctx, &child);
    l2::cleanup(&r);
    r
}

fn run_l2_at(case: &Case, i: usize, ctx: &mut Ctx, out: &mut Outcome) {
    let cs = &case.callset;
    let mut cfg = case.cfg.clone();
    if case.fault == Fault::StrictViolation {
        cfg.strict = true;
        cfg.project = None;
    }
    let Some((bytes, plan)) = build_l2_input(case, i) else {
        out.count("fault_not_applicable", 1);
        return;
    };
    // configuration faults: the record stream is fine, the request is not
    match case.fault {
        Fault::UnknownSample => {
            let list = cfg.sel.get_or_insert_with(|| vec![(cs.samples[0].clone(), None)]);
            let at = i % (list.len() + 1);
            list.insert(at, ("no_such_sample".to_string(), if i % 2 == 0 { None } else { Some("P9".to_string()) }));
            cfg.project = None;
        }
        Fault::BadPrecision => {
            // create honours --precision only for projected (fractional) output: the request is
            // inadmissible together with a projection, here onto the full shape
            if cfg.project.is_none() {
                let sizes = cfg.pop_sizes(&cs.samples);
                cfg.project = Some(sizes.iter().map(|s| 2 * s + 1).collect());
            }
            cfg.strict = false;
        }
        Fault::BadProjection => {
            let sizes = cfg.pop_sizes(&cs.samples);
            let mut shape: Vec<usize> = sizes.iter().map(|s| 2 * s + 1).collect();
            match i % 3 {
                0 => shape[i % sizes.len()] += 1 + i,
                1 => shape.push(3),
                _ => shape[i % sizes.len()] = 0,
            }
            cfg.project = Some(shape);
            cfg.strict = false;
        }
        _ => {}
    }
    // the thread count is a dimension of every process-level run (1, 2, default, 7): the accounting
    // must not depend on it; the precision is an inadmissible request of its own
    let mut extra: Vec<String> = vec![];
    match (i + cs.recs.len()) % 4 {
        0 => extra.extend(["--threads".to_string(), "1".to_string()]),
        1 => extra.extend(["--threads".to_string(), "2".to_string()]),
        2 => extra.extend(["--threads".to_string(), "7".to_string()]),
        _ => {}
    }
    if case.fault == Fault::BadPrecision {
        extra.extend(["--precision".to_string(), ["65536", "70000", "4294967296", "18446744073709551615"][i % 4].to_string()]);
    }
    let r = l2_create_with(ctx, &cfg, &bytes, plan, case.verbosity, case.samples_file, case.stdin_chunks, &extra);
    out.evals += 1;
    out.count("l2.runs", 1);
    out.steps += r.events.len() as u64 + cs.recs.len() as u64;
    out.digest = fnv_u64(out.digest, r.digest());
    out.nontrivial.push(fnv_u64(fnv1a(&bytes), fnv1a(format!("{cfg:?}").as_bytes())));
    out.sigs.push(fnv1a(format!("{:?}/{}", case.fault, r.status_class()).as_bytes()));
    if l2::inconclusive(&r) {
        out.inconclusive += 1;
        return;
    }
    if case.fault != Fault::None {
        out.count(&format!("fault.l2.{:?}", case.fault), 1);
    }
    let detail = || {
        format!(
            "fault {:?} at record {i} ({}) container={} args={:?} -> {} stderr={}",
            case.fault,
            site_name(cs, i),
            case.container.name(),
            cfg.cli_args(),
            r.status_class(),
            crate::harness::truncate(&r.stderr_text(), 300)
        )
    };
    // clause 3, for every run: a failing run writes no spectrum
    out.count("all_or_nothing_checked", 1);
    if !r.ok() && !r.stdout.is_empty() {
        out.violate(
            "partial_output_on_failure",
            format!("C10 L2 non-zero exit but stdout not empty ({:?})", case.fault),
            format!("{} ; stdout {} bytes", detail(), r.stdout.len()),
        );
        return;
    }
    if r.panicked() {
        // panics are C17's subject; the all-or-nothing clause above still applied
        out.count("l2.panic_seen", 1);
        return;
    }
    // a create run that reports success has written its spectrum
    if r.ok() && !r.stdout.starts_with(b"#SHAPE=<") {
        out.violate(
            "success_without_output",
            format!("C10 L2 exit 0 but no spectrum on stdout ({:?})", case.fault),
            format!("{} ; stdout {} bytes", detail(), r.stdout.len()),
        );
        return;
    }
    if matches!(case.fault, Fault::UnknownSample | Fault::BadProjection | Fault::BadPrecision) {
        if r.ok() {
            out.violate(
                "inadmissible_request_accepted",
                format!("C10 L2 {:?}: the run must fail (non-zero exit, no spectrum)", case.fault),
                detail(),
            );
        }
        return;
    }
    let stderr = r.stderr_text();
    let (summary, skipped_sites) = parse_skipped(&stderr);
    let proj = cfg.project.is_some();
    match case.fault {
        Fault::PloidySelected => {
            if r.ok() {
                out.violate(
                    "ploidy_error_ignored",
                    "C10 L2 ploidy error in a selected sample but exit 0".into(),
                    detail(),
                );
            } else if case.verbosity < 4 && !stderr.contains(&site_name(cs, i)) {
                // strict mode may legitimately stop earlier, at the first site the non-strict run
                // reports as skipped before it reaches the ploidy error
                let earlier = if cfg.strict {
                    let mut c2 = cfg.clone();
                    c2.strict = false;
                    let relaxed = l2_create(ctx, &c2, &bytes, None, 0, case.samples_file, case.stdin_chunks);
                    out.evals += 1;
                    parse_skipped(&relaxed.stderr_text()).1.first().cloned()
                } else {
                    None
                };
                if !earlier.map(|s| stderr.contains(&s)).unwrap_or(false) {
                    out.violate(
                        "failure_not_first_or_unnamed",
                        "C10 L2 ploidy error: message does not name the site".into(),
                        detail(),
                    );
                }
            }
        }
        Fault::ReadErrorAtRecord => {
            if r.rd_err_fired() && r.ok() {
                out.violate(
                    "read_error_ignored",
                    "C10 L2 read error fired but exit 0".into(),
                    detail(),
                );
            }
        }
        Fault::None | Fault::PloidyUnselected | Fault::StrictViolation if case.verbosity >= 3 => {
            // -q: nothing is reported on stderr, so neither the conservation law nor "first skipped
            // site" can be read off; the all-or-nothing clauses above were applied
            out.count("l2.quiet_runs", 1);
        }
        Fault::None | Fault::PloidyUnselected | Fault::StrictViolation => {
            if cfg.strict {
                let mut c2 = cfg.clone();
                c2.strict = false;
                let relaxed = l2_create(ctx, &c2, &bytes, None, case.verbosity, case.samples_file, case.stdin_chunks);
                out.evals += 1;
                out.count("l2.runs", 1);
                let (_, rsk) = parse_skipped(&relaxed.stderr_text());
                if relaxed.ok() {
                    match rsk.first() {
                        Some(s1) => {
                            out.count("strict_checked.violation", 1);
                            if r.ok() || !stderr.contains(s1.as_str()) {
                                out.violate(
                                    "strict_first_skipped_site",
                                    "C10 L2 strict run does not fail at the first site the non-strict run skips".into(),
                                    format!("{} ; first skipped by the non-strict run: {s1}", detail()),
                                );
                            }
                        }
                        None => {
                            out.count("strict_checked.no_violation", 1);
                            if r.code != relaxed.code || r.stdout != relaxed.stdout {
                                out.violate(
                                    "strict_differs_without_violation",
                                    "C10 L2 strict and non-strict runs differ although nothing is skipped".into(),
                                    detail(),
                                );
                            }
                        }
                    }
                }
            } else if r.ok() {
                let _ = skipped_sites;
                if let Some((_, vals)) = std::str::from_utf8(&r.stdout).ok().and_then(|s| s.split_once('\n')) {
                    let v: Vec<f64> = vals.split_ascii_whitespace().filter_map(|t| t.parse().ok()).collect();
                    conservation(out, "L2", v.iter().sum(), v.len(), summary, cs.recs.len() as u64, proj, &detail());
                }
            } else if case.fault == Fault::PloidyUnselected {
                // negative control: no demand to fail and none to succeed (a non-diploid genotype in
                // an unselected sample of a BCF record is rejected by the BCF decoder itself before
                // sample selection applies); the all-or-nothing clause above was still applied
                out.count("l2.unselected_ploidy_run_failed", 1);
            } else if !stderr.contains("project") {
                // a fault-free (or soft-fault) input must not fail, except for configurations the
                // tool rejects up front (inadmissible projection)
                out.violate(
                    "unexpected_failure",
                    format!("C10 L2 run fails without a failure in the stream ({:?})", case.fault),
                    detail(),
                );
            } else {
                out.count("config_rejected", 1);
            }
        }
        _ => {}
    }
}
