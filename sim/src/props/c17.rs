//! C17 — every invocation ends in success or a diagnosed error, never a panic.
//!
//! Crash-freedom of the real binary (dev profile: overflow checks and debug assertions on)
//! under storage corruption (bit flips, truncation, duplicated ranges, splices between valid
//! files, numeric blow-ups), degenerate requests (the statistic x small-shape grid, view
//! option combinations on degenerate shapes, option values at and beyond their bounds,
//! contradictory sample lists) and chunked stdin delivery.

use serde::{Deserialize, Serialize};
use serde_json::{json, Value};

use crate::{
    gen::{self, CallSetParams, Container, Layout, Spec},
    harness::{Ctx, Outcome, Prop, Tier},
    l1,
    l2::{self, Child, Plan, Stdin, Target},
    rng::{fnv1a, fnv_u64, Rng, FNV_INIT},
};

#[derive(Clone, Debug, Serialize, Deserialize)]
pub struct Case {
    /// generator family (reach probe)
    pub family: String,
    pub args: Vec<String>,
    pub files: Vec<(String, String)>,
    /// stdin bytes (hex); None = /dev/null
    pub stdin: Option<String>,
    /// chunk schedule on stdin (first, rest); None = unmodified
    pub chunks: Option<(usize, usize)>,
}

pub struct C17;

pub const STATS: [&str; 14] = [
    "d-fu-li", "d-tajima", "f2", "f3", "f4", "fst", "pi", "pi-xy", "king", "r0", "r1", "s", "sum", "theta",
];

fn spectrum_bytes(spec: &Spec, npy: bool, precision: usize) -> Vec<u8> {
    let mut v = vec![];
    let _ = l1::write_spectrum(&mut v, &l1::scs_from(&spec.shape, &spec.bits), npy, precision);
    v
}

fn text_spectrum(shape_txt: &str, values: &str) -> Vec<u8> {
    format!("#SHAPE=<{shape_txt}>\n{values}\n").into_bytes()
}

fn small_spec(rng: &mut Rng, shape: Vec<usize>) -> Spec {
    let n: usize = shape.iter().product();
    let fam = rng.below(4);
    let vals: Vec<f64> = (0..n)
        .map(|_| match fam {
            0 => rng.below(50) as f64,
            1 => 0.0,
            2 => rng.f64(),
            _ => gen::gen_value(rng, 3),
        })
        .collect();
    Spec::from_vals(shape, &vals)
}

pub fn mutate(rng: &mut Rng, bytes: &[u8], other: &[u8]) -> Vec<u8> {
    let mut b = bytes.to_vec();
    let k = rng.range(1, 3);
    for _ in 0..k {
        if b.is_empty() {
            b.extend_from_slice(&other[..other.len().min(rng.range(0, 8))]);
            continue;
        }
        let i = rng.below(b.len() as u64) as usize;
        match rng.below(10) {
            0 | 1 => b[i] ^= 1 << rng.below(8),
            2 => b[i] = *rng.pick(&[0u8, 0xff, b'0', b'9', b' ', b'\n', b'\t', b'-', b'.', b'/', b',']),
            3 => b.truncate(i),
            4 => {
                let j = (i + rng.range(1, 40)).min(b.len());
                let seg = b[i..j].to_vec();
                for (k, x) in seg.into_iter().enumerate() {
                    b.insert(i + k, x);
                }
            }
            5 => {
                let j = (i + rng.range(1, 40)).min(b.len());
                b.drain(i..j);
            }
            6 => {
                if !other.is_empty() {
                    let a = rng.below(other.len() as u64) as usize;
                    let e = (a + rng.range(1, 64)).min(other.len());
                    let seg = other[a..e].to_vec();
                    let j = (i + seg.len()).min(b.len());
                    b.splice(i..j, seg);
                }
            }
            7 => {
                let digits = *rng.pick(&["99999999999999999999", "18446744073709551615", "4294967296", "0", "00000000", "-1", "1e999", "nan", "inf"]);
                let seg: Vec<u8> = digits.bytes().collect();
                // replace a run of digits if we are on one, else insert
                if b[i].is_ascii_digit() {
                    let mut s = i;
                    while s > 0 && b[s - 1].is_ascii_digit() {
                        s -= 1;
                    }
                    let mut e = i;
                    while e < b.len() && b[e].is_ascii_digit() {
                        e += 1;
                    }
                    b.splice(s..e, seg);
                } else {
                    for (k, x) in seg.into_iter().enumerate() {
                        b.insert(i + k, x);
                    }
                }
            }
            8 => {
                let n = rng.range(1, 8).min(b.len());
                b.truncate(n);
            }
            _ => {
                // swap two bytes
                let j = rng.below(b.len() as u64) as usize;
                b.swap(i, j);
            }
        }
    }
    b
}

/// Keeps mutated call-set containers from turning into decompression bombs: a BGZF ISIZE field
/// or a BCF record length near 4 GiB makes the (dev-profile) decoder zero-fill gigabytes for
/// 10-30 s of CPU before it reports a clean error, which would put those children at the CPU
/// limit, where the outcome class depends on machine load. Length fields above 1 MiB are
/// folded back below it; every other mutated byte stays as it is.
fn defuse_length_fields(bytes: &mut [u8]) {
    // BGZF blocks: magic 1f 8b 08 04, BSIZE at +16, ISIZE in the last four bytes
    let mut i = 0;
    while i + 18 <= bytes.len() {
        if bytes[i] == 0x1f && bytes[i + 1] == 0x8b && bytes[i + 2] == 0x08 && bytes[i + 3] == 0x04 {
            let bsize = u16::from_le_bytes([bytes[i + 16], bytes[i + 17]]) as usize + 1;
            let end = i + bsize;
            if bsize >= 26 && end <= bytes.len() {
                let isize = u32::from_le_bytes([bytes[end - 4], bytes[end - 3], bytes[end - 2], bytes[end - 1]]);
                if isize > (1 << 20) {
                    bytes[end - 2] = 0;
                    bytes[end - 1] = 0;
                }
                i = end;
                continue;
            }
        }
        i += 1;
    }
    // raw BCF: l_text, then per record l_shared / l_indiv
    if bytes.len() > 9 && &bytes[..3] == b"BCF" {
        let fold = |b: &mut [u8], at: usize| {
            if at + 4 <= b.len() && u32::from_le_bytes([b[at], b[at + 1], b[at + 2], b[at + 3]]) > (1 << 20) {
                b[at + 2] = 0;
                b[at + 3] = 0;
            }
        };
        fold(bytes, 5);
        let l_text = u32::from_le_bytes([bytes[5], bytes[6], bytes[7], bytes[8]]) as usize;
        let mut off = 9 + l_text;
        while off + 8 <= bytes.len() {
            fold(bytes, off);
            fold(bytes, off + 4);
            let ls = u32::from_le_bytes([bytes[off], bytes[off + 1], bytes[off + 2], bytes[off + 3]]) as usize;
            let li = u32::from_le_bytes([bytes[off + 4], bytes[off + 5], bytes[off + 6], bytes[off + 7]]) as usize;
            off += 8 + ls + li;
        }
    }
}

fn grid_shape(rng: &mut Rng) -> Vec<usize> {
    let d = rng.range(1, 4);
    (0..d).map(|_| rng.range(1, 4)).collect()
}

/// numeric option values at and beyond the bounds of the integer types involved
fn boundary_num(rng: &mut Rng) -> String {
    (*rng.pick(&[
        "0", "1", "2", "2147483647", "2147483648", "4294967295", "4294967296", "9223372036854775807", "9223372036854775808",
        "18446744073709551614", "18446744073709551615", "18446744073709551616",
    ]))
    .to_string()
}

fn precision_arg(rng: &mut Rng) -> String {
    (*rng.pick(&["0", "1", "6", "17", "18", "100", "65535", "65536", "65537", "4294967296", "18446744073709551615", "18446744073709551616", "-1"]))
        .to_string()
}

fn deliver(rng: &mut Rng, case: &mut Case, bytes: Vec<u8>) {
    // via path, via stdin, or via chunked stdin
    match rng.below(4) {
        0 | 1 => {
            case.files.push(("in.dat".into(), gen::hex(&bytes)));
            case.args.push("@DIR@/in.dat".into());
        }
        2 => case.stdin = Some(gen::hex(&bytes)),
        _ => {
            case.stdin = Some(gen::hex(&bytes));
            case.chunks = Some((rng.range(1, 12), *rng.pick(&[1usize, 2, 7, 64, 4096])));
        }
    }
}

impl Prop for C17 {
    type Case = Case;
    fn id(&self) -> &'static str {
        "C17"
    }
    fn level(&self) -> &'static str {
        "exploration"
    }
    fn n_cases(&self, tier: Tier) -> u64 {
        match tier {
            Tier::Quick => 16000,
            Tier::Thorough => 240000,
        }
    }

    fn gen(&self, seed: u64, _idx: u64, _tier: Tier) -> Case {
        let mut rng = Rng::new(seed);
        let mut case = Case {
            family: String::new(),
            args: vec![],
            files: vec![],
            stdin: None,
            chunks: None,
        };
        match rng.below(16) {
            0..=2 => {
                // the full grid statistic(14) x small shapes
                case.family = "stat_grid".into();
                let shape = if rng.chance(1, 4) {
                    vec![rng.range(1, 6)]
                } else if rng.chance(1, 6) {
                    // the element count of a shape some statistic is defined for, in another form:
                    // factorisations of 4, 6, 8, 9, 12, 16, 27 with unit and long axes
                    let n = *rng.pick(&[4usize, 6, 8, 9, 9, 9, 12, 16, 27]);
                    let mut dims = vec![n];
                    for _ in 0..rng.range(0, 2) {
                        // split one axis by a divisor, or add a unit axis
                        let i = rng.below(dims.len() as u64) as usize;
                        let d = (2..=dims[i]).find(|d| dims[i] % d == 0 && rng.chance(1, 2)).unwrap_or(1);
                        if d > 1 && d < dims[i] {
                            dims[i] /= d;
                            dims.insert(i, d);
                        } else {
                            dims.insert(rng.range(0, dims.len()), 1);
                        }
                    }
                    dims
                } else {
                    grid_shape(&mut rng)
                };
                let spec = small_spec(&mut rng, shape);
                let k = rng.range(1, 3);
                let stats: Vec<&str> = (0..k).map(|_| *rng.pick(&STATS)).collect();
                case.args = vec!["stat".into(), "-s".into(), stats.join(",")];
                if rng.chance(1, 4) {
                    case.args.push("-H".into());
                }
                if rng.chance(1, 3) {
                    case.args.push("-p".into());
                    let n = *rng.pick(&[1usize, k, k, k + 1, 0]);
                    case.args.push((0..n).map(|_| precision_arg(&mut rng)).collect::<Vec<_>>().join(","));
                }
                if rng.chance(1, 6) {
                    case.args.push("-d".into());
                    case.args.push((*rng.pick(&[";", "\t", " ", "ä", "", "€", "→", "😀", "\u{0}", "ab"])).to_string());
                }
                let bytes = spectrum_bytes(&spec, rng.chance(1, 2), 6);
                deliver(&mut rng, &mut case, bytes);
            }
            3 | 4 if rng.chance(1, 3) => {
                // long axes: sample sizes around the boundaries of integer widths and of the
                // factorial table (63..68, 127..129, 170..172, 255..257 chromosomes, ~1,000)
                case.family = "large_axes".into();
                let n = *rng.pick(&[62usize, 63, 64, 65, 66, 67, 68, 69, 127, 128, 129, 169, 170, 171, 172, 173, 255, 256, 257, 341, 1031]);
                let two = rng.chance(1, 3);
                let shape = if two { vec![n + 1, rng.range(2, 4)] } else { vec![n + 1] };
                let spec = small_spec(&mut rng, shape.clone());
                case.args = vec!["view".into()];
                let target = match rng.below(5) {
                    0 => rng.range(1, n),
                    1 => rng.range(20, 45.min(n)),
                    2 => n,
                    3 => n - 1,
                    _ => *rng.pick(&[1usize, 2, 24, 29, 30, 31, 33, 43]),
                };
                if rng.chance(1, 2) || two {
                    case.args.push("--project-shape".into());
                    case.args.push(if two { format!("{},{}", target + 1, shape[1]) } else { format!("{}", target + 1) });
                } else {
                    case.args.push("-p".into());
                    case.args.push(format!("{}", target / 2));
                }
                if rng.chance(1, 4) {
                    case.args.push("-n".into());
                }
                if rng.chance(1, 3) {
                    // statistics on long one-dimensional spectra use the same tables
                    case.args = vec!["stat".into(), "-s".into(), (*rng.pick(&["theta,pi,d-tajima,d-fu-li", "pi", "theta", "d-tajima", "s,sum"])).to_string()];
                }
                let bytes = spectrum_bytes(&spec, rng.chance(1, 2), 6);
                deliver(&mut rng, &mut case, bytes);
            }
            3..=5 => {
                case.family = "view_options".into();
                let shape: Vec<usize> = match rng.below(5) {
                    0 => (0..rng.range(1, 4)).map(|_| rng.range(1, 2)).collect(),
                    1 | 2 => (0..rng.range(4, 6)).map(|_| rng.range(1, 3)).collect(),
                    _ => grid_shape(&mut rng),
                };
                let d = shape.len();
                let spec = small_spec(&mut rng, shape.clone());
                case.args = vec!["view".into()];
                if rng.chance(1, 2) {
                    let flag = if rng.chance(1, 2) { "-m" } else { "-M" };
                    let k = rng.range(1, d + 1);
                    let mut axes: Vec<String> = (0..k)
                        .map(|_| if rng.chance(1, 8) { boundary_num(&mut rng) } else { rng.range(0, d + 1).to_string() })
                        .collect();
                    if rng.chance(1, 4) && !axes.is_empty() {
                        // duplicated axes, adjacent or not
                        let a = rng.pick(&axes).clone();
                        let at = rng.range(0, axes.len());
                        axes.insert(at, a);
                    }
                    if rng.chance(1, 3) && d >= 2 {
                        // structured lists of in-range axes: permutations with and without a
                        // repeated entry, shorter than the number of dimensions where possible
                        let a = rng.below(d as u64) as usize;
                        let mut b = rng.below(d as u64) as usize;
                        if b == a {
                            b = (a + 1) % d;
                        }
                        let c = (a.max(b) + 1) % d;
                        let pat: Vec<usize> = match rng.below(7) {
                            0 => vec![a, b, a],
                            1 => vec![a, a, b],
                            2 => vec![b, a, a],
                            3 => vec![a, b, c, a],
                            4 => vec![b, a],
                            5 => vec![a, b, c],
                            _ => vec![a, a],
                        };
                        axes = pat.into_iter().map(|x| x.to_string()).collect();
                    }
                    if rng.chance(1, 12) {
                        axes = vec![(*rng.pick(&["", ",", "0,", ",0"])).to_string()];
                    }
                    case.args.push(flag.into());
                    case.args.push(axes.join(","));
                }
                if rng.chance(1, 2) {
                    let flag = if rng.chance(1, 2) { "--project-shape" } else { "-p" };
                    let k = if rng.chance(3, 4) { d } else { rng.range(1, d + 1) };
                    let t: Vec<String> = (0..k)
                        .map(|i| {
                            let l = shape.get(i).copied().unwrap_or(2);
                            match rng.below(6) {
                                0 => "0".to_string(),
                                1 => (l + 1).to_string(),
                                2 | 3 => boundary_num(&mut rng),
                                _ => rng.range(0, l).to_string(),
                            }
                        })
                        .collect();
                    // lists derived from the spectrum's own shape: the identity, one entry more, one less
                    let t = if flag == "--project-shape" && rng.chance(1, 3) {
                        let mut s: Vec<String> = shape.iter().map(|x| x.to_string()).collect();
                        match rng.below(4) {
                            0 => {}
                            1 => s.push(shape[0].to_string()),
                            2 => {
                                s.pop();
                            }
                            _ => s.extend(["1".to_string(), "1".to_string()]),
                        }
                        if s.is_empty() {
                            s.push("1".into());
                        }
                        s
                    } else {
                        t
                    };
                    case.args.push(flag.into());
                    case.args.push(t.join(","));
                }
                if rng.chance(1, 3) {
                    case.args.push("--mask-monomorphic".into());
                }
                if rng.chance(1, 3) {
                    case.args.push("-n".into());
                }
                if rng.chance(1, 3) {
                    case.args.push("-O".into());
                    case.args.push("npy".into());
                }
                if rng.chance(1, 3) {
                    case.args.push("--precision".into());
                    case.args.push(precision_arg(&mut rng));
                }
                let bytes = spectrum_bytes(&spec, rng.chance(1, 2), 6);
                deliver(&mut rng, &mut case, bytes);
            }
            6 => {
                case.family = "fold_options".into();
                let shape = grid_shape(&mut rng);
                let spec = small_spec(&mut rng, shape);
                case.args = vec!["fold".into(), "--fill".into(), (*rng.pick(&["nan", "zero", "minus-one", "inf"])).to_string()];
                if rng.chance(1, 3) {
                    case.args.push("-p".into());
                    case.args.push(precision_arg(&mut rng));
                }
                let bytes = spectrum_bytes(&spec, rng.chance(1, 2), 6);
                deliver(&mut rng, &mut case, bytes);
            }
            7..=9 => {
                case.family = "mutated_spectrum".into();
                let spec = gen::gen_spec(&mut rng, 4, 4, 40, false);
                let other = spectrum_bytes(&gen::gen_spec(&mut rng, 3, 4, 30, false), rng.chance(1, 2), 3);
                let base = if rng.chance(1, 2) {
                    spectrum_bytes(&spec, rng.chance(1, 2), rng.range(0, 8))
                } else {
                    gen::npy_image(&gen::gen_npy_spec(&mut rng, 3, 4, 30))
                };
                let bytes = mutate(&mut rng, &base, &other);
                match rng.below(3) {
                    0 => case.args = vec!["view".into()],
                    1 => case.args = vec!["fold".into()],
                    _ => case.args = vec!["stat".into(), "-s".into(), (*rng.pick(&STATS)).to_string()],
                }
                deliver(&mut rng, &mut case, bytes);
            }
            10 if rng.chance(1, 6) => {
                // thousands of unit axes: the npy header outgrows the two-byte length field of
                // format version 1.0 (65,535 bytes)
                case.family = "thousands_of_axes".into();
                // (the dev-profile binary needs about 2 s of CPU for 22,000 axes and time grows
                // quadratically, so the counts stay well inside the CPU limit of the children)
                let n = *rng.pick(&[3000usize, 21000, 21800, 21840, 21850, 22000]);
                let shape_txt = vec!["1"; n].join("/");
                let bytes = text_spectrum(&shape_txt, "5");
                case.args = match rng.below(3) {
                    0 => vec!["view".into()],
                    1 => vec!["stat".into(), "-s".into(), "sum".into()],
                    _ => vec!["view".into(), "-O".into(), "npy".into()],
                };
                deliver(&mut rng, &mut case, bytes);
            }
            10 => {
                case.family = "absurd_shapes".into();
                let shape_txt = (*rng.pick(&[
                    "0", "0/0", "1/0/3", "18446744073709551615", "18446744073709551616", "4294967296/4294967296", "2/9223372036854775808",
                    "3/", "/3", "", "1/1/1/1/1/1/1/1/1/1/1/1/1/1/1/1/1/1/1/1/1/1/1/1/1/1/1/1/1/1/1/1/1", "-3", "3.0", "٣",
                ]))
                .to_string();
                // half of the time the shape is composed freely from boundary axis lengths, so that
                // zero-length, unit and overflowing axes meet in every combination and order
                let shape_txt = if rng.chance(1, 2) {
                    let d = rng.range(1, 4);
                    (0..d)
                        .map(|_| *rng.pick(&["0", "0", "1", "2", "3", "65536", "4294967295", "4294967296", "9223372036854775807", "9223372036854775808", "18446744073709551615"]))
                        .collect::<Vec<_>>()
                        .join("/")
                } else {
                    shape_txt
                };
                let nvals = if shape_txt.split('/').any(|a| a == "0") && rng.chance(1, 2) { 0 } else { rng.range(0, 6) };
                let values: Vec<String> = (0..nvals).map(|_| (*rng.pick(&["1", "0", "2.5", "nan", "inf", "-inf", "1e999", "1e-999", "0x1p3", "1_0", "", "+.5"])).to_string()).collect();
                let bytes = if rng.chance(2, 3) {
                    text_spectrum(&shape_txt, &values.join(" "))
                } else {
                    // npy with an absurd shape / header length
                    let mut img = gen::npy_image(&gen::gen_npy_spec(&mut rng, 2, 3, 9));
                    let s = String::from_utf8_lossy(&img).to_string();
                    if let (Some(a), Some(b)) = (s.find('('), s.find(')')) {
                        let repl = shape_txt.replace('/', ", ");
                        img.splice(a + 1..b, format!("{repl},").bytes());
                    }
                    if rng.chance(1, 2) {
                        // header length field: zero, tiny, off by one, maximal
                        let real = u16::from_le_bytes([img[8], img[9]]);
                        let v: u16 = *rng.pick(&[0u16, 1, 2, real.wrapping_sub(1), real.wrapping_add(1), 0xffff, 0x8000]);
                        if img[6] == 1 {
                            img[8..10].copy_from_slice(&v.to_le_bytes());
                        } else {
                            let w: u32 = if rng.chance(1, 2) { v as u32 } else { *rng.pick(&[0u32, 0xffff_ffff, 0x8000_0000]) };
                            img[8..12].copy_from_slice(&w.to_le_bytes());
                        }
                    }
                    img
                };
                match rng.below(3) {
                    0 => case.args = vec!["view".into()],
                    1 => case.args = vec!["fold".into()],
                    _ => case.args = vec!["stat".into(), "-s".into(), (*rng.pick(&STATS)).to_string()],
                }
                deliver(&mut rng, &mut case, bytes);
            }
            11 => {
                case.family = "short_input".into();
                let n = rng.range(0, 8);
                let srcs: [&[u8]; 6] = [&b"#SHAPE=<3>\n1 2 3\n"[..], &b"\x93NUMPY\x01\x00\x46\x00{'descr"[..], &b"\x1f\x8b\x08\x04\x00\x00\x00\x00"[..], &b"BCF\x02\x02\x10\x00\x00"[..], &b"##filefo"[..], &b"\n\n\n\n\n\n\n\n"[..]];
                let src: &[u8] = *rng.pick(&srcs);
                let bytes = src[..n.min(src.len())].to_vec();
                match rng.below(4) {
                    0 => case.args = vec!["view".into()],
                    1 => case.args = vec!["fold".into()],
                    2 => case.args = vec!["stat".into(), "-s".into(), "sum".into()],
                    _ => case.args = vec!["create".into()],
                }
                deliver(&mut rng, &mut case, bytes);
            }
            12 => {
                case.family = "many_unit_axes".into();
                // every npy header length modulo 64 occurs among shapes with up to 24 unit axes
                let d = rng.range(1, 24);
                let mut shape = vec![1usize; d];
                for _ in 0..rng.range(0, 2) {
                    let i = rng.below(d as u64) as usize;
                    shape[i] = *rng.pick(&[2usize, 3, 9, 10, 11, 12, 100]);
                }
                // steer towards the 64-byte alignment boundary of the npy header sfs will write:
                // unpadded length = 10 + len("{'descr': '<f8', 'fortran_order': False, 'shape': (..,), }")
                let hdr_len = |shape: &[usize]| -> usize {
                    let inner = shape.iter().map(|x| x.to_string()).collect::<Vec<_>>().join(", ");
                    10 + format!("{{'descr': '<f8', 'fortran_order': False, 'shape': ({inner},), }}").len()
                };
                if rng.chance(1, 2) {
                    let target = *rng.pick(&[0usize, 0, 63, 1, 62]);
                    let mut tries = 0;
                    while hdr_len(&shape) % 64 != target && tries < 70 {
                        // grow by a unit axis, or shrink, keeping 1..=33 axes
                        if shape.len() < 33 {
                            shape.push(1);
                        } else {
                            shape.truncate(1);
                        }
                        tries += 1;
                    }
                }
                let spec = small_spec(&mut rng, shape);
                let input_text = rng.chance(1, 2);
                let bytes = if input_text {
                    spectrum_bytes(&spec, false, 2)
                } else {
                    // the harness lays the npy out itself (the writer under test is sfs')
                    gen::npy_image(&gen::NpySpec {
                        version: 1,
                        endian: '<',
                        dtype: "f8".into(),
                        shape: spec.shape.clone(),
                        spelling: 0,
                        raw: vec![8; spec.bits.len()],
                    })
                };
                case.args = match rng.below(6) {
                    0 | 4 | 5 => vec!["view".into(), "-O".into(), "npy".into()],
                    1 => vec!["view".into()],
                    2 => vec!["fold".into()],
                    _ => vec!["stat".into(), "-s".into(), "sum".into()],
                };
                deliver(&mut rng, &mut case, bytes);
            }
            15 if rng.chance(1, 4) => {
                // dozens of populations: the number of cells of the requested spectrum (3^d for
                // one-sample populations) outgrows memory and, from 41 populations on, usize
                case.family = "many_populations".into();
                let n = *rng.pick(&[20usize, 33, 40, 41, 42, 64]);
                let samples: Vec<String> = (0..n).map(|i| format!("s{i}")).collect();
                let cs = gen::CallSet {
                    samples: samples.clone(),
                    ncontigs: 1,
                    extra_info: false,
                    recs: vec![gen::Rec {
                        contig: 0,
                        pos: 5,
                        nalt: 1,
                        gts: (0..n).map(|i| if i % 3 == 0 { "0/1".to_string() } else { "0/0".to_string() }).collect(),
                        extra_fmt: false,
                        kind: 0,
                        no_gt: false,
                    }],
                    contig_style: 0,
                };
                let list = samples.iter().enumerate().map(|(i, s)| format!("{s}=p{i}")).collect::<Vec<_>>().join(",");
                case.args = vec!["create".into(), "-s".into(), list];
                if rng.chance(1, 3) {
                    case.args.push("--project-shape".into());
                    case.args.push(vec!["2"; n].join(","));
                }
                let bytes = cs.to_vcf();
                deliver(&mut rng, &mut case, bytes);
            }
            14 | 15 if rng.chance(1, 3) => {
                // path faults: missing / unreadable / directory inputs, unwritable outputs
                case.family = "path_faults".into();
                let shape = grid_shape(&mut rng);
                let spec = small_spec(&mut rng, shape);
                let bytes = spectrum_bytes(&spec, rng.chance(1, 2), 4);
                case.files.push(("in.dat".into(), gen::hex(&bytes)));
                let input = (*rng.pick(&["@DIR@/in.dat", "@DIR@/missing.sfs", "@DIR@", "@DIR@/in.dat/x", "/dev/null", "/proc/self/mem", ""])).to_string();
                match rng.below(4) {
                    0 => {
                        case.args = vec!["view".into(), "-o".into(), (*rng.pick(&["@DIR@/no_such_dir/out.sfs", "@DIR@", "/dev/full", "/proc/version", "@DIR@/in.dat", ""])).to_string()];
                        if rng.chance(1, 2) {
                            case.args.push("-O".into());
                            case.args.push("npy".into());
                        }
                        case.args.push(input);
                    }
                    1 => {
                        case.args = vec!["fold".into(), "-o".into(), (*rng.pick(&["@DIR@/no_such_dir/out.sfs", "@DIR@", "/dev/full"])).to_string(), input];
                    }
                    2 => case.args = vec!["stat".into(), "-s".into(), "sum".into(), input],
                    _ => {
                        case.args = vec!["create".into()];
                        if rng.chance(1, 2) {
                            case.args.push("-S".into());
                            case.args.push((*rng.pick(&["@DIR@/missing.samples", "@DIR@", "/dev/null", "@DIR@/in.dat"])).to_string());
                        }
                        case.args.push(input);
                    }
                }
            }
            13 | 14 if rng.chance(2, 3) => {
                // typed-value corruption inside the per-sample (FORMAT) block of BCF records:
                // reserved / end-of-vector / missing codes and type descriptor bytes
                case.family = "bcf_typed_values".into();
                let mut p = CallSetParams::standard(5, 6);
                p.kind_w = [5, 2, 2, 2, 1, 1, 0, 0, 0, 0, 0, 0, 0, 0];
                let (mut callset, cfg) = gen::gen_callset(&mut rng, &p);
                if callset.recs.is_empty() {
                    let s = callset.samples.clone();
                    callset.recs.push(gen::gen_rec(&mut rng, 0, &s, &cfg, 0, 9));
                }
                for r in callset.recs.iter_mut() {
                    r.extra_fmt = rng.chance(1, 2);
                }
                let mut raw = gen::vcf_to_bcf(&callset.to_vcf()).unwrap_or_default();
                let offs = gen::bcf_record_offsets(&raw);
                if !offs.is_empty() {
                    for _ in 0..rng.range(1, 2) {
                        let o = *rng.pick(&offs);
                        if o + 8 > raw.len() {
                            continue;
                        }
                        let ls = u32::from_le_bytes([raw[o], raw[o + 1], raw[o + 2], raw[o + 3]]) as usize;
                        let li = u32::from_le_bytes([raw[o + 4], raw[o + 5], raw[o + 6], raw[o + 7]]) as usize;
                        if rng.chance(1, 4) && ls >= 24 && o + 32 <= raw.len() {
                            // the fixed-size site fields: CHROM, POS, rlen, n_info, n_allele,
                            // n_sample (24 bits), n_fmt - a count that disagrees with the header's
                            // sample columns or with the data that follows
                            let f = o + 8;
                            match rng.below(7) {
                                0 => raw[f..f + 4].copy_from_slice(&(*rng.pick(&[-1i32, 1, 7, i32::MAX])).to_le_bytes()),
                                1 => raw[f + 4..f + 8].copy_from_slice(&(*rng.pick(&[-1i32, -2, i32::MAX, i32::MIN])).to_le_bytes()),
                                2 => raw[f + 8..f + 12].copy_from_slice(&(*rng.pick(&[-1i32, 0, i32::MAX])).to_le_bytes()),
                                3 => raw[f + 16..f + 18].copy_from_slice(&(*rng.pick(&[1u16, 2, 0xffff])).to_le_bytes()),
                                4 => raw[f + 18..f + 20].copy_from_slice(&(*rng.pick(&[0u16, 1, 3, 0xffff])).to_le_bytes()),
                                5 => {
                                    let cur = u32::from_le_bytes([raw[f + 20], raw[f + 21], raw[f + 22], 0]);
                                    let v = *rng.pick(&[0u32, 1, cur.saturating_sub(1), cur + 1, 0xff_ffff]);
                                    raw[f + 20..f + 23].copy_from_slice(&v.to_le_bytes()[..3]);
                                }
                                _ => raw[f + 23] = *rng.pick(&[0u8, 1, 2, 3, 0xff]),
                            }
                            continue;
                        }
                        let (a, b) = if rng.chance(3, 4) { (o + 8 + ls, o + 8 + ls + li) } else { (o + 8, o + 8 + ls) };
                        if a >= b || b > raw.len() {
                            continue;
                        }
                        let at = rng.range(a, b - 1);
                        raw[at] = *rng.pick(&[
                            0x80u8, 0x81, 0x82, 0x83, 0x87, 0x7f, 0x00, 0x11, 0x12, 0x13, 0x15, 0x17, 0x21, 0x22, 0x23, 0x25, 0x27, 0xf1, 0xf2, 0xf7, 0x10, 0x01, 0x02,
                            0x03, 0x05, 0x07, 0xff,
                        ]);
                    }
                }
                defuse_length_fields(&mut raw);
                let bytes = if rng.chance(1, 2) {
                    raw
                } else {
                    gen::bgzf_frame(&raw, &Layout { blocks: vec![], eof_marker: true, level: 6, bcf_minor: 0, no_contig_lines: false, }).0
                };
                case.args = vec!["create".into()];
                if rng.chance(1, 2) {
                    case.args.extend(cfg.cli_args());
                }
                deliver(&mut rng, &mut case, bytes);
            }
            _ => {
                case.family = "create".into();
                let mut p = CallSetParams::standard(6, 8);
                p.allow_ploidy = true;
                p.kind_w = [5, 2, 2, 2, 1, 1, 1, 1, 1, 1, 1, 1, 1, 1];
                let (callset, cfg) = gen::gen_callset(&mut rng, &p);
                let vcf = callset.to_vcf();
                let container = *rng.pick(&Container::ALL);
                let layout = Layout {
                    blocks: vec![],
                    eof_marker: rng.chance(3, 4),
                    level: 6,
                bcf_minor: 0, no_contig_lines: false,
                };
                let mut bytes = gen::encode(&vcf, container, &layout).map(|x| x.0).unwrap_or(vcf.clone());
                if rng.chance(1, 2) {
                    let other = gen::encode(&vcf, *rng.pick(&Container::ALL), &layout).map(|x| x.0).unwrap_or_default();
                    bytes = mutate(&mut rng, &bytes, &other);
                    defuse_length_fields(&mut bytes);
                    case.family = "create_mutated_input".into();
                }
                case.args = vec!["create".into()];
                // sample lists: valid, empty, unknown, duplicated with contradictory labels
                let names = &callset.samples;
                match rng.below(8) {
                    0 => {
                        case.args.push("-s".into());
                        case.args.push(String::new());
                    }
                    1 => {
                        case.args.push("-s".into());
                        let a = rng.pick(names).clone();
                        case.args.push(match rng.below(8) {
                            0 => "nosuchsample".to_string(),
                            1 => "=pop".to_string(),
                            2 => format!("{a}="),
                            3 => ",".to_string(),
                            4 => format!("{a},,{a}"),
                            5 => format!("{a}=x=y"),
                            6 => format!("Åke,{a}"),
                            _ => format!("{a}=\t"),
                        });
                    }
                    2 => {
                        case.family = "create_contradictory_samples".into();
                        let a = rng.pick(names).clone();
                        let b = rng.pick(names).clone();
                        let list = match rng.below(4) {
                            0 => format!("{a}=X,{a}=Y"),
                            1 => format!("{a}=X,{b}=Y,{a}=Z"),
                            2 => format!("{a},{a}=Y"),
                            _ => format!("{a}=X,{b}=Y,{b}=X,{a}=Y"),
                        };
                        case.args.push("-s".into());
                        case.args.push(list);
                    }
                    3 => {
                        case.family = "create_samples_file".into();
                        let mut txt = String::new();
                        if rng.chance(1, 6) {
                            // lines that start with a non-ASCII character, a byte-order mark, a comment sign
                            txt.push_str(*rng.pick(&["\u{feff}", "Åke\tpop0\n", "样本1\n", "#comment\n", "é\n", "\u{1F600}\tx\n"]));
                        }
                        if rng.chance(1, 8) {
                            txt.push_str(*rng.pick(&["\n\n\n", "", "\t\n", "\r\n", " \n"]));
                        }
                        for (i, n) in names.iter().enumerate() {
                            match rng.below(5) {
                                0 => txt.push_str(&format!("{n}\n")),
                                1 => txt.push_str(&format!("{n}\tpop{}\n", i % 2)),
                                2 => txt.push_str(&format!("{n}\tpop{}\n{n}\tother\n", i % 2)),
                                3 => txt.push_str(&format!("{n}\t\n")),
                                _ => txt.push_str("\n"),
                            }
                        }
                        let tb = if rng.chance(1, 3) { mutate(&mut rng, txt.as_bytes(), b"\t\n\xff") } else { txt.into_bytes() };
                        case.files.push(("samples.txt".into(), gen::hex(&tb)));
                        case.args.push("-S".into());
                        case.args.push("@DIR@/samples.txt".into());
                    }
                    _ => case.args.extend(cfg.cli_args()),
                }
                if rng.chance(1, 4) {
                    let flag = if rng.chance(1, 2) { "--project-shape" } else { "-p" };
                    if !case.args.iter().any(|a| a == "--project-shape" || a == "--strict") {
                        case.args.push(flag.into());
                        let k = rng.range(1, 3);
                        case.args.push(
                            (0..k)
                                .map(|_| if rng.chance(1, 3) { boundary_num(&mut rng) } else { (*rng.pick(&["0", "1", "2", "3", "100"])).to_string() })
                                .collect::<Vec<_>>()
                                .join(","),
                        );
                    }
                }
                if rng.chance(1, 4) {
                    case.args.push("--precision".into());
                    case.args.push(precision_arg(&mut rng));
                }
                if rng.chance(1, 3) {
                    case.args.push("-t".into());
                    case.args.push((*rng.pick(&["1", "2", "64", "0", "-1", "18446744073709551616"])).to_string());
                }
                deliver(&mut rng, &mut case, bytes);
            }
        }
        // global flags that must not matter for termination: verbosity, quiet, hidden --debug
        if !case.args.is_empty() && rng.chance(1, 5) {
            let flag = *rng.pick(&["-v", "-vv", "-q", "-qq", "--debug", "-vvv", "--quiet"]);
            let at = rng.range(1, case.args.len());
            // keep the flag in front of a trailing positional input
            let at = at.min(case.args.iter().position(|a| a.starts_with("@DIR@")).unwrap_or(case.args.len()));
            let at = if at > 0 && case.args[at - 1].starts_with('-') && !case.args[at - 1].starts_with("--mask") && case.args[at - 1] != "-n" && case.args[at - 1] != "-H" && case.args[at - 1] != "--strict" {
                1
            } else {
                at
            };
            case.args.insert(at, flag.to_string());
        }
        case
    }

    fn run(&self, case: &Case, ctx: &mut Ctx) -> Outcome {
        let mut out = Outcome {
            digest: FNV_INIT,
            ..Default::default()
        };
        let plan = case.chunks.map(|(first, rest)| Plan {
            input: Some(Target::Stdin),
            rd_chunks: vec![first],
            rd_rest: rest,
            ..Default::default()
        });
        let child = Child {
            args: case.args.clone(),
            env: vec![],
            stdin: match &case.stdin {
                Some(h) => Stdin::File(h.clone()),
                None => Stdin::Null,
            },
            plan,
            files: case.files.clone(),
        };
        let t0 = std::time::Instant::now();
        let r = l2::run_child(ctx, &child);
        l2::cleanup(&r);
        if std::env::var("VERIF_DEBUG_SLOW").is_ok() && t0.elapsed().as_millis() > 200 {
            eprintln!("slow {} ms: {:?} {:?}", t0.elapsed().as_millis(), case.args, case.family);
            let _ = std::fs::write(format!("/tmp/slow-{}.json", t0.elapsed().as_millis()), serde_json::to_string(case).unwrap());
        }
        out.evals += 1;
        out.count("l2.runs", 1);
        out.steps += r.events.len() as u64 + 1;
        // a child stopped by the resource limits is an artefact of the limits: it must not
        // enter the determinism digest (CPU time near the limit varies with machine load)
        if !l2::inconclusive(&r) {
            out.digest = fnv_u64(out.digest, r.digest());
        }
        out.count(&format!("family.{}", case.family), 1);
        if case.chunks.is_some() {
            out.count("fault.chunked_stdin", 1);
        }
        if l2::inconclusive(&r) {
            out.inconclusive += 1;
            out.count("inconclusive.limit_artefact", 1);
            return out;
        }
        let stderr = r.stderr_text();
        let class = if r.panicked() {
            "panic"
        } else if r.ok() {
            "exit0"
        } else if r.code == Some(2) {
            "exit2_usage"
        } else {
            "exit_nonzero"
        };
        out.count(&format!("exit.{class}"), 1);
        out.sigs.push(fnv1a(format!("{}/{}/{class}", case.family, case.args.first().map(|s| s.as_str()).unwrap_or("")).as_bytes()));
        out.nontrivial.push(fnv1a(format!("{:?}{:?}{:?}{:?}", case.args, case.files, case.stdin, case.chunks).as_bytes()));
        let describe = || {
            format!(
                "sfs {} (family {}; stdin={} chunks={:?}) -> {} ; stderr: {}",
                case.args.join(" "),
                case.family,
                case.stdin.as_ref().map(|h| h.len() / 2).unwrap_or(0),
                case.chunks,
                r.status_class(),
                crate::harness::truncate(&stderr, 400)
            )
        };
        if r.panicked() {
            // thread 'main' panicked at core/src/spectrum/io.rs:23:10:\n<message>
            let mut key = "C17 panic (no message)".to_string();
            if let Some(p) = stderr.find("panicked at ") {
                let rest = &stderr[p + 12..];
                let loc = rest.lines().next().unwrap_or("").trim_end_matches(':');
                let msg = rest.lines().nth(1).unwrap_or("");
                key = format!("C17 panic {}", l1::panic_key(&format!("{loc}: {msg}")));
            } else if let Some(s) = r.signal {
                key = format!("C17 killed by signal {s}");
            }
            out.violate("panic", key, describe());
        } else if !r.ok() && r.stderr.iter().all(|b| b.is_ascii_whitespace()) {
            out.violate(
                "undiagnosed_failure",
                format!("C17 non-zero exit without a diagnostic ({})", case.args.first().cloned().unwrap_or_default()),
                describe(),
            );
        }
        out
    }

    fn shrink(&self, case: &Case) -> Vec<Case> {
        let mut v = vec![];
        if case.chunks.is_some() {
            v.push(Case { chunks: None, ..case.clone() });
        }
        // drop option pairs / single flags (never the subcommand or the positional input)
        for i in 1..case.args.len() {
            if case.args[i].starts_with('-') && case.args[i].len() > 1 && !case.args[i].chars().nth(1).map(|c| c.is_ascii_digit()).unwrap_or(false) {
                let takes_value = i + 1 < case.args.len() && !case.args[i + 1].starts_with("--") && !case.args[i + 1].starts_with("@DIR@") && !matches!(case.args[i].as_str(), "-H" | "-n" | "--mask-monomorphic" | "--strict" | "-v");
                let mut a = case.args.clone();
                if takes_value {
                    a.drain(i..i + 2);
                } else {
                    a.remove(i);
                }
                v.push(Case { args: a, ..case.clone() });
            }
        }
        // ddmin-lite on the input bytes
        let shrink_bytes = |h: &str| -> Vec<String> {
            let b = gen::unhex(h);
            let mut outv = vec![];
            for div in [2usize, 4, 8] {
                let sz = b.len() / div;
                if sz == 0 {
                    continue;
                }
                let mut s = 0;
                while s < b.len() {
                    let mut c = b.clone();
                    c.drain(s..(s + sz).min(b.len()));
                    outv.push(gen::hex(&c));
                    s += sz;
                }
            }
            outv
        };
        if let Some(h) = &case.stdin {
            for c in shrink_bytes(h) {
                v.push(Case { stdin: Some(c), ..case.clone() });
            }
        }
        for (fi, (name, h)) in case.files.iter().enumerate() {
            for c in shrink_bytes(h) {
                let mut f = case.files.clone();
                f[fi] = (name.clone(), c);
                v.push(Case { files: f, ..case.clone() });
            }
        }
        v
    }

    fn sample(&self, case: &Case) -> Value {
        let input = case
            .stdin
            .as_ref()
            .or_else(|| case.files.first().map(|f| &f.1))
            .map(|h| {
                let b = gen::unhex(h);
                crate::harness::truncate(&String::from_utf8_lossy(&b[..b.len().min(80)]), 80)
            });
        json!({"family": case.family, "argv": case.args, "input_head": input, "stdin": case.stdin.is_some(), "stdin_chunks": case.chunks})
    }

    fn rule(&self) -> String {
        "A case is one invocation of the real binary: a syntactically plausible command line of create/view/fold/stat and an input that started valid. Families: the grid statistic(14) x \
         shapes with 1..4 axes of length 1..4 (plus 1-D lengths 1..6); view option combinations (marginalize in/out of range/duplicated/all, projection to 0 / larger / other dimensionality, \
         mask, normalize, npy) on degenerate shapes; fold fills; valid text/npy spectra with bit flips, truncation, duplicated/deleted ranges, splices and numeric blow-ups; absurd declared shapes \
         (zero axes, overflowing products, 33 axes, maximal header length); inputs of 0..8 bytes; spectra with up to 24 unit axes (every npy header length mod 64); create on valid and mutated \
         vcf/vcf.gz/bcf/raw bcf with valid, empty, unknown and contradictory sample lists / samples files, projections and precisions at and beyond bounds, --threads 1..64. A quarter of the \
         inputs arrive on chunked stdin. Distinct non-trivial = distinct (argv, files, stdin bytes, chunking)."
            .to_string()
    }

    fn assumptions(&self) -> Vec<String> {
        vec![
            "The binary is built in the dev profile (overflow checks, debug assertions), so arithmetic overflow is observable as a panic".into(),
            "Children run under a 30 s CPU and 16 GiB address-space limit that only protect the sandbox; a kill by those limits or an allocation abort is counted as inconclusive, never as a violation. Length fields of mutated BGZF / BCF containers above 1 MiB are folded back below it (decompression bombs cost the dev-profile decoder 10-30 s before a clean error, i.e. they sit at the limit, where the outcome would depend on machine load); the slowest remaining family (22,000 axes) needs about 2 s".into(),
            "--threads is exercised up to 64 only: thread-spawn failure under the sandbox's process limits would be an artefact".into(),
            "Violations are keyed by (source file of the panic, normalised message) so that individual defects can be listed and a new panic is still reported".into(),
        ]
    }

    fn components(&self) -> Value {
        json!({"real": ["the unmodified sfs binary (dev profile) and every dependency", "kernel"], "stubbed": ["read(2) chunking on stdin (shim)", "scratch file system content (simulated storage corruption)"]})
    }

    fn expected_probes(&self) -> Vec<&'static str> {
        vec![
            "family.stat_grid",
            "family.view_options",
            "family.fold_options",
            "family.mutated_spectrum",
            "family.absurd_shapes",
            "family.short_input",
            "family.many_unit_axes",
            "family.create",
            "family.create_mutated_input",
            "family.create_contradictory_samples",
            "family.create_samples_file",
            "family.bcf_typed_values",
            "family.path_faults",
            "family.large_axes",
            "family.many_populations",
            "family.thousands_of_axes",
            "fault.chunked_stdin",
            "exit.exit0",
            "exit.exit_nonzero",
            "exit.exit2_usage",
        ]
    }
}
