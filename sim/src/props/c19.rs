//! C19 — array, axis-view and iterator API invariants.
//!
//! Weakest fit for the technique (no I/O, fault or concurrency): what qualifies it is that it
//! is quantified over *call histories* on stateful iterators.  The simulator contributes
//! seeded call histories (interleavings of next / len / size_hint / clone continued past
//! exhaustion), an executable reference model (nested-loop row-major enumeration),
//! minimisation and replay.  It contributes no fault or schedule dimension.

use serde::{Deserialize, Serialize};
use serde_json::{json, Value};

use sfs_core::array::{Array, Axis, Shape};

use crate::{
    harness::{Ctx, Outcome, Prop, Tier},
    l1::{guarded, panic_key},
    rng::{fnv1a, fnv_u64, Rng, FNV_INIT},
};

#[derive(Clone, Copy, Debug, PartialEq, Serialize, Deserialize)]
pub enum H {
    Next,
    Len,
    Hint,
    /// continue on a clone of the iterator (view iterator only)
    Clone,
    /// Iterator::nth(k): skips k items and yields the next; may overshoot the end
    Nth(usize),
    /// the items still to come, taken by internal iteration: 0 fold (collecting), 1 count, 2 last.
    /// On a clone where the iterator can be cloned (the history continues), by value otherwise
    /// (then it is the last call of the history)
    Rest(u8),
}

/// what a `Rest` call observed
#[derive(Debug, PartialEq)]
pub enum RestObs<T> {
    Items(Vec<T>),
    Count(usize),
    Last(Option<T>),
}

macro_rules! std_call {
    ($cell:expr, $h:expr, $map:expr) => {{
        let mut g = $cell.borrow_mut();
        let it = g.as_mut().expect("iterator already consumed by value");
        match $h {
            H::Next => (Some(it.next().map($map)), None, None),
            H::Nth(k) => (Some(it.nth(k).map($map)), None, None),
            H::Len => (None, Some(it.len()), None),
            H::Hint => (None, None, Some(it.size_hint())),
            H::Clone | H::Rest(_) => (None, None, None),
        }
    }};
}

macro_rules! rest_by_value {
    ($it:expr, $kind:expr, $map:expr, $bound:expr) => {{
        let it = $it;
        match $kind {
            0 => RestObs::Items(it.fold(Vec::new(), |mut acc, x| {
                assert!(acc.len() <= $bound, "fold visits more items than the array holds");
                acc.push($map(x));
                acc
            })),
            1 => RestObs::Count(it.count()),
            _ => RestObs::Last(it.last().map($map)),
        }
    }};
}

#[derive(Clone, Debug, Serialize, Deserialize)]
pub enum Op {
    Get { index: Vec<usize> },
    GetAxis { axis: usize, pos: usize },
    Indices { hist: Vec<H> },
    AxisIter { axis: usize, hist: Vec<H> },
    ViewIter { axis: usize, pos: usize, hist: Vec<H> },
    Freq { hist: Vec<H> },
    Sum { axis: usize },
    ToArray { axis: usize, pos: usize },
    /// the array of this shape as obtained from `Array::read_npy` (the other way to get an array),
    /// from a header that declares C order or Fortran order: if the reader accepts it, indexing,
    /// flat order and views of the result must agree with one another
    FromNpy { fortran: bool },
}

#[derive(Clone, Debug, Serialize, Deserialize)]
pub struct Case {
    pub shape: Vec<usize>,
    pub ops: Vec<Op>,
}

pub struct C19;

pub const MAX_AXES: usize = 5;
pub const MAX_LEN: usize = 5;

/// the idx-th shape of the grid (1..=5 axes of length 1..=5): 5 + 25 + ... + 3125 = 3905 shapes
pub fn nth_shape(mut idx: u64) -> Vec<usize> {
    idx %= 3905;
    let mut d = 1;
    let mut block = 5u64;
    while idx >= block {
        idx -= block;
        d += 1;
        block *= 5;
    }
    let mut s = vec![0; d];
    for i in (0..d).rev() {
        s[i] = 1 + (idx % 5) as usize;
        idx /= 5;
    }
    s
}

// ---------------------------------------------------------------- reference model
pub fn model_indices(shape: &[usize]) -> Vec<Vec<usize>> {
    let mut out = vec![];
    let mut cur = vec![0usize; shape.len()];
    fn rec(shape: &[usize], d: usize, cur: &mut Vec<usize>, out: &mut Vec<Vec<usize>>) {
        if d == shape.len() {
            out.push(cur.clone());
            return;
        }
        for i in 0..shape[d] {
            cur[d] = i;
            rec(shape, d + 1, cur, out);
        }
    }
    rec(shape, 0, &mut cur, &mut out);
    out
}

fn model_view(shape: &[usize], axis: usize, pos: usize) -> Vec<usize> {
    model_indices(shape)
        .iter()
        .enumerate()
        .filter(|(_, idx)| idx[axis] == pos)
        .map(|(flat, _)| flat)
        .collect()
}

fn gen_hist(rng: &mut Rng, n: usize, allow_clone: bool) -> Vec<H> {
    let past = rng.range(1, 2 * n + 4);
    let total_next = n + past;
    let p_other = *rng.pick(&[0u64, 10, 30, 60]);
    let mut h = vec![];
    let mut nexts = 0;
    let p_nth = *rng.pick(&[0u64, 0, 5, 15]);
    let p_rest = *rng.pick(&[0u64, 0, 5, 15]);
    while nexts < total_next {
        if rng.below(100) < p_nth {
            // mostly short skips, now and then one that overshoots the end by far
            let k = match rng.below(6) {
                0 => n + rng.range(0, 3),
                1 => usize::MAX - rng.range(0, 1),
                _ => rng.range(0, 3),
            };
            h.push(H::Nth(k));
            nexts += k.min(total_next) + 1;
        } else if allow_clone && rng.below(100) < p_rest {
            h.push(H::Rest(rng.below(3) as u8));
        } else if rng.below(100) < p_other {
            h.push(match rng.below(if allow_clone { 5 } else { 4 }) {
                0 | 1 => H::Len,
                2 | 3 => H::Hint,
                _ => H::Clone,
            });
        } else {
            h.push(H::Next);
            nexts += 1;
        }
    }
    // always probe the reported length right after exhaustion as well
    h.push(H::Len);
    h.push(H::Hint);
    h.push(H::Next);
    if !allow_clone && p_rest > 0 {
        // by value: the last call of the history; half of the time from the middle of the sequence
        if rng.chance(1, 2) {
            h.truncate(rng.range(0, n.min(h.len())));
        }
        h.push(H::Rest(rng.below(3) as u8));
    }
    h
}

struct HistJudge<'a> {
    out: &'a mut Outcome,
    iter_name: String,
    detail: String,
}

impl<'a> HistJudge<'a> {
    /// drives one history; `call` performs the real call and returns (item, len, hint)
    fn drive<T: PartialEq + std::fmt::Debug + Clone>(
        &mut self,
        hist: &[H],
        expected: &[T],
        mut call: impl FnMut(H) -> Result<(Option<Option<T>>, Option<usize>, Option<(usize, Option<usize>)>), String>,
        mut rest: impl FnMut(u8) -> Result<RestObs<T>, String>,
    ) {
        let n = expected.len();
        let mut p = 0usize;
        for (step, h) in hist.iter().enumerate() {
            let phase = if p < n { "before_end" } else { "past_end" };
            self.out.evals += 1;
            self.out.steps += 1;
            if p >= n {
                self.out.count("calls_past_exhaustion", 1);
            }
            if let H::Rest(kind) = h {
                self.out.count("internal_iteration_calls", 1);
                let remaining = &expected[p.min(n)..];
                let want = match kind {
                    0 => RestObs::Items(remaining.to_vec()),
                    1 => RestObs::Count(remaining.len()),
                    _ => RestObs::Last(remaining.last().cloned()),
                };
                let name = ["fold", "count", "last"][(*kind as usize).min(2)];
                match rest(*kind) {
                    Err(pmsg) => {
                        self.out.violate(
                            "iterator_panics",
                            format!("C19 {} {name} {phase} panic {}", self.iter_name, panic_key(&pmsg)),
                            format!("{} step {step} ({name}, {} items left): {pmsg}", self.detail, remaining.len()),
                        );
                        return;
                    }
                    Ok(got) => {
                        if got != want {
                            self.out.violate(
                                "iterator_sequence",
                                format!("C19 {} {name} {phase} differs from the items next() would yield", self.iter_name),
                                format!("{} step {step}: after {p} items {name}: expected {want:?} got {got:?}", self.detail),
                            );
                            return;
                        }
                    }
                }
                continue;
            }
            let r = call(*h);
            let rem = n.saturating_sub(p);
            match r {
                Err(pmsg) => {
                    self.out.violate(
                        "iterator_panics",
                        format!("C19 {} {:?} {phase} panic {}", self.iter_name, h, panic_key(&pmsg)),
                        format!("{} step {step} ({h:?}, {rem} items left): {pmsg}", self.detail),
                    );
                    return;
                }
                Ok((item, len, hint)) => {
                    match h {
                        H::Next => {
                            let want = expected.get(p).cloned();
                            let got = item.unwrap_or(None);
                            if got != want {
                                let what = match (&got, &want) {
                                    (Some(_), None) => "yields_item_after_end",
                                    (None, Some(_)) => "ends_early",
                                    _ => "wrong_item",
                                };
                                self.out.violate(
                                    "iterator_sequence",
                                    format!("C19 {} next {phase} {what}", self.iter_name),
                                    format!("{} step {step}: expected {want:?} got {got:?}", self.detail),
                                );
                                return;
                            }
                            if p < n {
                                p += 1;
                            } else {
                                p += 1; // depth past exhaustion
                            }
                        }
                        H::Len => {
                            if len != Some(rem) {
                                self.out.violate(
                                    "iterator_length",
                                    format!("C19 {} len {phase} wrong", self.iter_name),
                                    format!("{} step {step}: {rem} items left, len() = {len:?}", self.detail),
                                );
                                return;
                            }
                        }
                        H::Hint => {
                            if hint != Some((rem, Some(rem))) {
                                self.out.violate(
                                    "iterator_length",
                                    format!("C19 {} size_hint {phase} wrong", self.iter_name),
                                    format!("{} step {step}: {rem} items left, size_hint() = {hint:?}", self.detail),
                                );
                                return;
                            }
                        }
                        H::Clone | H::Rest(_) => {}
                        H::Nth(k) => {
                            // model: skip k items (clamped at the end), then behave like next()
                            let at = p.saturating_add(*k);
                            let want = expected.get(at).cloned();
                            let got = item.unwrap_or(None);
                            if got != want {
                                let what = match (&got, &want) {
                                    (Some(_), None) => "yields_item_after_end",
                                    (None, Some(_)) => "ends_early",
                                    _ => "wrong_item",
                                };
                                self.out.violate(
                                    "iterator_sequence",
                                    format!("C19 {} nth {phase} {what}", self.iter_name),
                                    format!("{} step {step}: nth({k}) expected {want:?} got {got:?}", self.detail),
                                );
                                return;
                            }
                            p = if at >= n { n.max(p) } else { at + 1 };
                        }
                    }
                }
            }
        }
    }
}

fn rank_class(dims: usize) -> &'static str {
    match dims {
        1 => "rank0_view",
        2 => "rank1_view",
        _ => "rank>=2_view",
    }
}

impl Prop for C19 {
    type Case = Case;
    fn id(&self) -> &'static str {
        "C19"
    }
    fn level(&self) -> &'static str {
        "exploration"
    }
    fn n_cases(&self, tier: Tier) -> u64 {
        match tier {
            // the grid, plus shapes beyond it (6..12 axes) as a guard against fixed-size assumptions
            Tier::Quick => 3905 + 160,
            Tier::Thorough => 3905 * 100 + 4000,
        }
    }

    fn gen(&self, seed: u64, idx: u64, _tier: Tier) -> Case {
        let mut rng = Rng::new(seed);
        let grid_cases = if _tier == Tier::Thorough { 3905 * 100 } else { 3905 };
        let shape = if idx >= grid_cases {
            let d = rng.range(6, 12);
            let mut s: Vec<usize> = (0..d).map(|_| rng.range(1, 2)).collect();
            if rng.chance(1, 2) {
                let i = rng.below(d as u64) as usize;
                s[i] = 3;
            }
            s
        } else {
            nth_shape(idx)
        };
        let dims = shape.len();
        let n: usize = shape.iter().product();
        let mut ops = vec![];
        // every axis incl. dims and dims+1, every position incl. len and len+1
        for axis in 0..=dims + 1 {
            let alen = shape.get(axis).copied().unwrap_or(2);
            for pos in 0..=alen + 1 {
                ops.push(Op::GetAxis { axis, pos });
                if axis < dims && pos < alen {
                    let vn = n / alen;
                    ops.push(Op::ViewIter {
                        axis,
                        pos,
                        hist: gen_hist(&mut rng, vn, true),
                    });
                    if rng.chance(1, 3) {
                        ops.push(Op::ToArray { axis, pos });
                    }
                }
            }
            if axis < dims {
                ops.push(Op::AxisIter {
                    axis,
                    hist: gen_hist(&mut rng, alen, false),
                });
                ops.push(Op::Sum { axis });
            }
        }
        ops.push(Op::FromNpy { fortran: false });
        ops.push(Op::FromNpy { fortran: true });
        ops.push(Op::Indices {
            hist: gen_hist(&mut rng, n, false),
        });
        ops.push(Op::Freq {
            hist: gen_hist(&mut rng, n, false),
        });
        // an out-of-range axis request through iter_axis: the iterator must be empty, report a
        // remaining length of 0 and never panic (drawn last so that earlier streams stay as they were)
        for axis in dims..=dims + 1 {
            ops.push(Op::AxisIter {
                axis,
                hist: gen_hist(&mut rng, 0, false),
            });
        }
        // indexing: out of range per axis, wrong length (in-range indices are all checked by Indices)
        for axis in 0..dims {
            let mut idx: Vec<usize> = shape.iter().map(|&l| rng.below(l as u64) as usize).collect();
            idx[axis] = shape[axis] + rng.below(2) as usize;
            ops.push(Op::Get { index: idx });
        }
        // coordinates so large that any unchecked stride arithmetic would overflow
        for axis in 0..dims {
            let mut idx: Vec<usize> = shape.iter().map(|&l| rng.below(l as u64) as usize).collect();
            idx[axis] = *rng.pick(&[usize::MAX, usize::MAX / 2 + 1, 1usize << 32, usize::MAX - 1]);
            ops.push(Op::Get { index: idx });
        }
        let inr: Vec<usize> = shape.iter().map(|&l| rng.below(l as u64) as usize).collect();
        let mut short = inr.clone();
        short.pop();
        ops.push(Op::Get { index: short });
        let mut long = inr.clone();
        long.push(0);
        ops.push(Op::Get { index: long });
        ops.push(Op::Get { index: vec![] });
        ops.push(Op::Get { index: inr });
        Case { shape, ops }
    }

    fn run(&self, case: &Case, _ctx: &mut Ctx) -> Outcome {
        let mut out = Outcome {
            digest: FNV_INIT,
            ..Default::default()
        };
        let shape = &case.shape;
        let dims = shape.len();
        let n: usize = shape.iter().product();
        let model = model_indices(shape);
        let data: Vec<f64> = (0..n).map(|i| i as f64).collect();
        let array = match guarded(|| Array::new(data.clone(), Shape(shape.clone()))) {
            Ok(Ok(a)) => a,
            Ok(Err(e)) => {
                out.violate("array_new", "C19 Array::new rejects matching data".into(), format!("{shape:?}: {e}"));
                return out;
            }
            Err(p) => {
                out.violate("array_new", format!("C19 Array::new panic {}", panic_key(&p)), format!("{shape:?}: {p}"));
                return out;
            }
        };
        out.count(&format!("dims.{dims}"), 1);
        for op in &case.ops {
            out.nontrivial.push(fnv_u64(fnv1a(format!("{shape:?}").as_bytes()), fnv1a(format!("{op:?}").as_bytes())));
            match op {
                Op::Get { index } => {
                    out.evals += 1;
                    let want = if index.len() == dims && index.iter().zip(shape.iter()).all(|(i, l)| i < l) {
                        model.iter().position(|m| m == index).map(|f| f as f64)
                    } else {
                        None
                    };
                    match guarded(|| array.get(index).copied()) {
                        Ok(got) => {
                            if got != want {
                                out.violate(
                                    "get",
                                    format!("C19 get {} wrong", if want.is_some() { "in_range" } else { "out_of_range" }),
                                    format!("shape {shape:?} index {index:?}: expected {want:?} got {got:?}"),
                                );
                            }
                        }
                        Err(p) => out.violate(
                            "get",
                            format!("C19 get panic {}", panic_key(&p)),
                            format!("shape {shape:?} index {index:?}: {p}"),
                        ),
                    }
                    out.count(if want.is_some() { "get.in_range" } else { "get.out_of_range_or_wrong_len" }, 1);
                }
                Op::GetAxis { axis, pos } => {
                    out.evals += 1;
                    let valid = *axis < dims && *pos < shape[*axis];
                    let class = if *axis == dims {
                        "axis==dims"
                    } else if *axis > dims {
                        "axis>dims"
                    } else if *pos >= shape[*axis] {
                        "pos_out_of_range"
                    } else {
                        "valid"
                    };
                    out.count(&format!("get_axis.{class}"), 1);
                    match guarded(|| array.get_axis(Axis(*axis), *pos).map(|v| v.dimensions())) {
                        Ok(got) => {
                            let want = if valid { Some(dims - 1) } else { None };
                            if got != want {
                                out.violate(
                                    "get_axis",
                                    format!("C19 get_axis {class} wrong"),
                                    format!("shape {shape:?} axis {axis} pos {pos}: expected view dims {want:?} got {got:?}"),
                                );
                            }
                        }
                        Err(p) => out.violate(
                            "get_axis",
                            format!("C19 get_axis {class} panic"),
                            format!("shape {shape:?} axis {axis} pos {pos}: {p}"),
                        ),
                    }
                }
                Op::Indices { hist } => {
                    let it = std::cell::RefCell::new(Some(array.iter_indices()));
                    let mut j = HistJudge {
                        out: &mut out,
                        iter_name: "iter_indices".into(),
                        detail: format!("shape {shape:?} iter_indices"),
                    };
                    let map = |v: Vec<usize>| v;
                    j.drive(
                        hist,
                        &model,
                        |h| guarded(|| std_call!(it, h, map)),
                        |kind| guarded(|| rest_by_value!(it.borrow_mut().take().expect("iterator already consumed by value"), kind, map, n + 1)),
                    );
                    // bijection: indexing by the yielded index returns the element at that position
                    for (flat, idx) in model.iter().enumerate() {
                        out.evals += 1;
                        match guarded(|| array.get(idx).copied()) {
                            Ok(Some(v)) if v == flat as f64 => {}
                            other => {
                                out.violate(
                                    "bijection",
                                    "C19 get(index) is not the element at the row-major position".into(),
                                    format!("shape {shape:?} index {idx:?} flat {flat}: {other:?}"),
                                );
                                break;
                            }
                        }
                    }
                }
                Op::AxisIter { axis, hist } => {
                    let expected: Vec<Vec<f64>> = (0..shape.get(*axis).copied().unwrap_or(0))
                        .map(|pos| model_view(shape, *axis, pos).into_iter().map(|f| f as f64).collect())
                        .collect();
                    let it = std::cell::RefCell::new(Some(array.iter_axis(Axis(*axis))));
                    let mut j = HistJudge {
                        out: &mut out,
                        iter_name: "iter_axis".into(),
                        detail: format!("shape {shape:?} iter_axis({axis})"),
                    };
                    // collect at most the expected number of elements (+1) so that a non-terminating
                    // view iterator cannot hang the check
                    let map = |v: sfs_core::array::view::View<'_, f64>| v.iter().take(n + 1).copied().collect::<Vec<f64>>();
                    j.drive(
                        hist,
                        &expected,
                        |h| guarded(|| std_call!(it, h, map)),
                        |kind| guarded(|| rest_by_value!(it.borrow_mut().take().expect("iterator already consumed by value"), kind, map, n + 1)),
                    );
                }
                Op::ViewIter { axis, pos, hist } => {
                    let expected: Vec<f64> = model_view(shape, *axis, *pos).into_iter().map(|f| f as f64).collect();
                    let view = match guarded(|| array.get_axis(Axis(*axis), *pos)) {
                        Ok(Some(v)) => v,
                        _ => continue, // reported by GetAxis
                    };
                    out.count(&format!("view_iter.{}", rank_class(dims)), 1);
                    let it = std::cell::RefCell::new(Some(view.iter()));
                    let mut j = HistJudge {
                        out: &mut out,
                        iter_name: format!("view_iter({})", rank_class(dims)),
                        detail: format!("shape {shape:?} get_axis({axis},{pos}).iter()"),
                    };
                    let map = |x: &f64| *x;
                    j.drive(
                        hist,
                        &expected,
                        |h| {
                            guarded(|| {
                                if h == H::Clone {
                                    let c = it.borrow().as_ref().expect("iterator").clone();
                                    *it.borrow_mut() = Some(c);
                                }
                                std_call!(it, h, map)
                            })
                        },
                        // on a clone: the history goes on with the original afterwards
                        |kind| guarded(|| rest_by_value!(it.borrow().as_ref().expect("iterator").clone(), kind, map, n + 1)),
                    );
                }
                Op::Freq { hist } => {
                    let expected: Vec<Vec<u64>> = model
                        .iter()
                        .map(|idx| {
                            idx.iter()
                                .zip(shape.iter())
                                .map(|(&i, &l)| (i as f64 / (l - 1) as f64).to_bits())
                                .collect()
                        })
                        .collect();
                    let scs = match guarded(|| sfs_core::Scs::new(data.clone(), Shape(shape.clone()))) {
                        Ok(Ok(s)) => s,
                        _ => continue,
                    };
                    let it = std::cell::RefCell::new(Some(scs.iter_frequencies()));
                    let mut j = HistJudge {
                        out: &mut out,
                        iter_name: "iter_frequencies".into(),
                        detail: format!("shape {shape:?} iter_frequencies"),
                    };
                    let map = |v: Vec<f64>| v.iter().map(|x| x.to_bits()).collect::<Vec<u64>>();
                    j.drive(
                        hist,
                        &expected,
                        |h| guarded(|| std_call!(it, h, map)),
                        |kind| guarded(|| rest_by_value!(it.borrow_mut().take().expect("iterator already consumed by value"), kind, map, n + 1)),
                    );
                }
                Op::Sum { axis } => {
                    out.evals += 1;
                    let alen = shape[*axis];
                    let vn = n / alen;
                    let mut want = vec![0f64; vn];
                    for pos in 0..alen {
                        for (k, f) in model_view(shape, *axis, pos).into_iter().enumerate() {
                            want[k] += f as f64;
                        }
                    }
                    let want_shape: Vec<usize> = shape.iter().enumerate().filter(|(i, _)| i != axis).map(|(_, &l)| l).collect();
                    match guarded(|| {
                        let s = array.sum(Axis(*axis));
                        (s.shape().to_vec(), s.as_slice().to_vec())
                    }) {
                        Ok((gs, gv)) => {
                            if gs != want_shape || gv != want {
                                out.violate(
                                    "sum_axis",
                                    format!("C19 sum(axis) differs from adding the views ({})", rank_class(dims)),
                                    format!("shape {shape:?} axis {axis}: expected {want_shape:?} {:?} got {gs:?} {:?}", &want[..want.len().min(8)], &gv[..gv.len().min(8)]),
                                );
                            }
                        }
                        Err(p) => out.violate(
                            "sum_axis",
                            format!("C19 sum(axis) panic ({}) {}", rank_class(dims), panic_key(&p)),
                            format!("shape {shape:?} axis {axis}: {p}"),
                        ),
                    }
                }
                Op::FromNpy { fortran } => {
                    out.evals += 1;
                    let inner = shape.iter().map(|x| x.to_string()).collect::<Vec<_>>().join(", ");
                    let mut dict = format!("{{'descr': '<f8', 'fortran_order': {}, 'shape': ({inner},), }}", if *fortran { "True" } else { "False" });
                    while (10 + dict.len() + 1) % 64 != 0 {
                        dict.push(' ');
                    }
                    dict.push('\n');
                    let mut img = b"\x93NUMPY\x01\x00".to_vec();
                    img.extend_from_slice(&(dict.len() as u16).to_le_bytes());
                    img.extend_from_slice(dict.as_bytes());
                    for i in 0..n {
                        img.extend_from_slice(&(i as f64).to_le_bytes());
                    }
                    let read = guarded(|| Array::<f64>::read_npy(&mut &img[..]));
                    let arr = match read {
                        Ok(Ok(a)) => a,
                        Ok(Err(_)) => {
                            out.count(if *fortran { "from_npy.fortran_rejected" } else { "from_npy.c_order_rejected" }, 1);
                            continue;
                        }
                        Err(p) => {
                            out.violate("from_npy", format!("C19 read_npy panic {}", panic_key(&p)), format!("shape {shape:?} fortran={fortran}: {p}"));
                            continue;
                        }
                    };
                    out.count(if *fortran { "from_npy.fortran_accepted" } else { "from_npy.c_order_accepted" }, 1);
                    // whatever element order the reader chose: flat position and multi-index must be in
                    // bijection, and a view must hold the elements whose a-th index is i
                    let flat: Vec<f64> = arr.as_slice().to_vec();
                    let mut bad = None;
                    if arr.shape().to_vec() == *shape {
                        for (pos, idx) in model.iter().enumerate() {
                            match guarded(|| arr.get(idx).copied()) {
                                Ok(Some(v)) if v.to_bits() == flat[pos].to_bits() => {}
                                other => {
                                    bad = Some(format!("index {idx:?} at row-major position {pos}: get = {other:?}, element at that position = {}", flat[pos]));
                                    break;
                                }
                            }
                        }
                        if bad.is_none() {
                            'outer: for axis in 0..dims {
                                for pos in 0..shape[axis] {
                                    let want: Vec<f64> = model_view(shape, axis, pos).into_iter().map(|f| flat[f]).collect();
                                    let got = guarded(|| arr.get_axis(Axis(axis), pos).map(|v| v.iter().take(n + 1).copied().collect::<Vec<f64>>()));
                                    if got != Ok(Some(want.clone())) {
                                        bad = Some(format!("view (axis {axis}, position {pos}): expected {:?} got {:?}", &want[..want.len().min(8)], got));
                                        break 'outer;
                                    }
                                }
                            }
                        }
                    } else {
                        bad = Some(format!("shape of the array {:?}", arr.shape().to_vec()));
                    }
                    if let Some(b) = bad {
                        out.violate(
                            "bijection",
                            format!("C19 array from read_npy (fortran_order={fortran}): index, flat order and views disagree"),
                            format!("shape {shape:?}: {b}"),
                        );
                    }
                }
                Op::ToArray { axis, pos } => {
                    out.evals += 1;
                    let expected: Vec<f64> = model_view(shape, *axis, *pos).into_iter().map(|f| f as f64).collect();
                    let want_shape: Vec<usize> = shape.iter().enumerate().filter(|(i, _)| i != axis).map(|(_, &l)| l).collect();
                    let view = match guarded(|| array.get_axis(Axis(*axis), *pos)) {
                        Ok(Some(v)) => v,
                        _ => continue,
                    };
                    match guarded(|| {
                        // bounded collection, see above
                        let data: Vec<f64> = view.iter().take(n + 1).copied().collect();
                        data
                    }) {
                        Ok(d) => {
                            if d != expected {
                                out.violate(
                                    "view_collect",
                                    format!("C19 view collect differs ({})", rank_class(dims)),
                                    format!("shape {shape:?} axis {axis} pos {pos} (view shape {want_shape:?}): expected {:?} got {:?}", &expected[..expected.len().min(8)], &d[..d.len().min(8)]),
                                );
                            }
                        }
                        Err(p) => out.violate(
                            "view_collect",
                            format!("C19 view collect panic ({}) {}", rank_class(dims), panic_key(&p)),
                            format!("shape {shape:?} axis {axis} pos {pos}: {p}"),
                        ),
                    }
                }
            }
        }
        out.digest = fnv_u64(out.digest, out.evals);
        for v in &out.violations {
            out.digest = fnv_u64(out.digest, fnv1a(v.key.as_bytes()));
        }
        out.sigs.push(fnv1a(format!("{:?}", shape).as_bytes()));
        out
    }

    fn shrink(&self, case: &Case) -> Vec<Case> {
        let mut v = vec![];
        let n = case.ops.len();
        if n > 1 {
            v.push(Case { shape: case.shape.clone(), ops: case.ops[..n / 2].to_vec() });
            v.push(Case { shape: case.shape.clone(), ops: case.ops[n / 2..].to_vec() });
        } else if n == 1 {
            // shorten the history
            let with = |h: Vec<H>| -> Op {
                match &case.ops[0] {
                    Op::Indices { .. } => Op::Indices { hist: h },
                    Op::AxisIter { axis, .. } => Op::AxisIter { axis: *axis, hist: h },
                    Op::ViewIter { axis, pos, .. } => Op::ViewIter { axis: *axis, pos: *pos, hist: h },
                    Op::Freq { .. } => Op::Freq { hist: h },
                    o => o.clone(),
                }
            };
            let hist = match &case.ops[0] {
                Op::Indices { hist } | Op::AxisIter { hist, .. } | Op::ViewIter { hist, .. } | Op::Freq { hist } => Some(hist.clone()),
                _ => None,
            };
            if let Some(h) = hist {
                // drop trailing calls, then drop non-Next calls
                if h.len() > 1 {
                    v.push(Case { shape: case.shape.clone(), ops: vec![with(h[..h.len() - 1].to_vec())] });
                    v.push(Case { shape: case.shape.clone(), ops: vec![with(h[..h.len() / 2].to_vec())] });
                }
                for i in 0..h.len() {
                    if h[i] != H::Next {
                        let mut g = h.clone();
                        g.remove(i);
                        v.push(Case { shape: case.shape.clone(), ops: vec![with(g)] });
                        break;
                    }
                }
            }
        }
        v
    }

    fn sample(&self, case: &Case) -> Value {
        let first_hist = case.ops.iter().find_map(|o| match o {
            Op::ViewIter { axis, pos, hist } => Some(json!({"op":"get_axis(a,i).iter()","axis":axis,"pos":pos,"history":format!("{:?}", &hist[..hist.len().min(24)])})),
            _ => None,
        });
        json!({"shape":case.shape,"ops":case.ops.len(),"example_history":first_hist})
    }

    fn rule(&self) -> String {
        "A case is one shape of the grid 1..5 axes x lengths 1..5 (3,905 shapes; quick visits each once, thorough 100 times with fresh histories) with, for every axis 0..dims+1 and \
         every position 0..len+1, a get_axis request, and for every valid (axis, position) a view-iterator call history; plus histories on iter_indices, iter_axis(axis) (also for the two out-of-range axes dims and dims+1, where the iterator must be empty, report length 0 and not panic) and \
         iter_frequencies, sum(axis) for every axis, and in-range / out-of-range / wrong-length indexing. A history interleaves next(), len(), size_hint() and clone() and continues \
         1..2*len+4 next() calls past the first None. Every API call is an evaluation; distinct non-trivial = distinct (shape, operation incl. its full history)."
            .to_string()
    }

    fn assumptions(&self) -> Vec<String> {
        vec![
            "No fault or schedule dimension exists for this property; the simulator contributes seeded call histories, the reference model, minimisation and replay only".into(),
            "sum / index_axis are only called with valid axes (index_axis is documented to panic; sum returns an array, not an Option; get_axis and iter_axis are the requests that can express 'nothing there' and are driven with out-of-range axes too)".into(),
            "The harness is built with overflow checks and debug assertions on, like a dev build".into(),
        ]
    }

    fn components(&self) -> Value {
        json!({"real": ["sfs_core::array::{Array, View, iterators}", "Spectrum::iter_frequencies"], "stubbed": ["none (reference model: nested-loop row-major enumeration over Vec<usize>)"]})
    }

    fn expected_probes(&self) -> Vec<&'static str> {
        vec![
            "calls_past_exhaustion",
            "get_axis.axis==dims",
            "get_axis.axis>dims",
            "get_axis.pos_out_of_range",
            "view_iter.rank0_view",
            "view_iter.rank1_view",
            "view_iter.rank>=2_view",
            "dims.5",
            "dims.10",
        ]
    }
}
