//! C11 — a site's contribution is independent of earlier sites (additive, order-free).
//!
//! The site reader reuses mutable state across records (counts, totals, skipped list, the
//! projection's index buffer); only a *history* can expose a missed reset.  Oracle:
//! refinement against the same code without the history — the `Site` produced at step i of
//! history H must equal the `Site` produced when record i is read as the only record of a
//! fresh reader with the same configuration.  Source faults (error at record i, ploidy error
//! mid-record, `Done` in the middle) are injected and reading continues.

use serde::{Deserialize, Serialize};
use serde_json::{json, Value};

use sfs_core::input::{site::Site, ReadStatus};

use crate::{
    gen::{self, CallSet, CallSetParams, Config, Container, Layout, N_KINDS},
    harness::{Ctx, Outcome, Prop, Tier},
    l1::{self, guarded, Res},
    l2::{self, Child, Stdin},
    rng::{fnv1a, fnv_u64, Rng, FNV_INIT},
    simgeno::{gt_to_g, Item, SimGenotypeSource, G_PLOIDY},
};

#[derive(Clone, Debug, Serialize, Deserialize)]
pub enum Case {
    L1 {
        samples: Vec<String>,
        cfg: Config,
        items: Vec<Item>,
        kinds: Vec<u8>,
        split: usize,
        perm: Vec<usize>,
    },
    L2 {
        callset: CallSet,
        cfg: Config,
        split: usize,
        perm: Vec<usize>,
        container: Container,
    },
}

pub struct C11;

#[derive(Clone, Debug, PartialEq)]
enum SiteObs {
    Standard(Vec<usize>),
    Projected(Vec<u64>),
    Insufficient,
    Error(String),
    Done,
    Panic(String),
    /// a kind of site this harness does not know (a code change may add one): opaque at site level,
    /// the spectrum-level comparisons still apply
    Other,
}

impl SiteObs {
    fn class(&self) -> &'static str {
        match self {
            SiteObs::Standard(_) => "standard",
            SiteObs::Projected(_) => "projected",
            SiteObs::Insufficient => "insufficient",
            SiteObs::Error(_) => "error",
            SiteObs::Done => "done",
            SiteObs::Panic(_) => "panic",
            SiteObs::Other => "other",
        }
    }
}

type Step = (SiteObs, Vec<(String, &'static str)>);

/// Drives a site reader over `items`, one read_site per item (+1), continuing after errors.
fn drive(samples: &[String], cfg: &Config, items: &[Item], calls: usize) -> Result<Vec<Step>, String> {
    let (src, _stats) = SimGenotypeSource::new(samples, items.to_vec());
    let mut reader = match guarded(|| l1::site_builder(cfg).build(Box::new(src))) {
        Ok(Ok(r)) => r,
        Ok(Err(e)) => return Err(format!("build: {e}")),
        Err(p) => return Err(format!("build panic: {p}")),
    };
    let mut steps = vec![];
    for _ in 0..calls {
        let r = guarded(|| {
            let mut zero = reader.create_zero_scs();
            let obs = match reader.read_site() {
                ReadStatus::Read(Site::Standard(c)) => SiteObs::Standard(c.to_vec()),
                ReadStatus::Read(Site::Projected(p)) => {
                    p.add_unchecked(&mut zero);
                    SiteObs::Projected(zero.inner().as_slice().iter().map(|x| x.to_bits()).collect())
                }
                ReadStatus::Read(Site::InsufficientData) => SiteObs::Insufficient,
                ReadStatus::Error(e) => SiteObs::Error(e.to_string()),
                ReadStatus::Done => SiteObs::Done,
                #[allow(unreachable_patterns)]
                ReadStatus::Read(_) => SiteObs::Other,
            };
            let skipped: Vec<(String, &'static str)> = reader
                .current_skipped_samples()
                .map(|(s, k)| (s.as_ref().to_string(), k.reason()))
                .collect();
            (obs, skipped)
        });
        match r {
            Ok(s) => steps.push(s),
            Err(p) => {
                steps.push((SiteObs::Panic(p), vec![]));
                break;
            }
        }
    }
    Ok(steps)
}

fn run_spectrum(samples: &[String], cfg: &Config, items: &[Item]) -> Res<(Vec<usize>, Vec<u64>)> {
    let (src, _) = SimGenotypeSource::new(samples, items.to_vec());
    l1::create_from_genotype_reader(Box::new(src), cfg).result
}

fn parse_text_spectrum(out: &[u8]) -> Option<(String, Vec<f64>)> {
    let s = std::str::from_utf8(out).ok()?;
    let (h, rest) = s.split_once('\n')?;
    let v: Option<Vec<f64>> = rest.split_ascii_whitespace().map(|t| t.parse().ok()).collect();
    Some((h.to_string(), v?))
}

impl Prop for C11 {
    type Case = Case;
    fn id(&self) -> &'static str {
        "C11"
    }
    fn isolate(&self) -> bool {
        true
    }
    fn level(&self) -> &'static str {
        "exploration"
    }
    fn n_cases(&self, tier: Tier) -> u64 {
        match tier {
            Tier::Quick => 24000,
            Tier::Thorough => 600000,
        }
    }

    fn gen(&self, seed: u64, idx: u64, tier: Tier) -> Case {
        let mut rng = Rng::new(seed);
        // one case in forty is a long history (up to 1,600 records, few samples): batching, caching
        // and flushing thresholds inside the accumulation loop lie far beyond a dozen sites
        let long = idx % 40 == 39 && idx % 16 != 15;
        let max_s = if long { 6 } else if tier == Tier::Thorough { 24 } else { 12 };
        let mut p = CallSetParams::standard(max_s, if long { 1600 } else { 12 });
        p.allow_ploidy = true;
        p.allow_no_gt = true;
        p.kind_w = [4, 3, 2, 3, 1, 1, 3, 3, 1, 1, 3, 2, 2, 3];
        if idx % 16 == 15 {
            // whole / parts / permutation of a process run must all succeed to be compared: no
            // non-diploid call in a selected sample; in an unselected column it is legal input
            // (the column is never looked at) and stays in
            p.kind_w[gen::K_PLOIDY_SEL as usize] = 0;
            let (callset, cfg) = gen::gen_callset(&mut rng, &p);
            let n = callset.recs.len();
            let mut perm: Vec<usize> = (0..n).collect();
            rng.shuffle(&mut perm);
            let split = rng.range(0, n);
            let container = {
                    let c = *rng.pick(&[Container::Vcf, Container::VcfGz, Container::Bcf]);
                    // The BCF encoding of the generated call sets (noodles' writer) is trusted for
                    // diploid call sets only (DESIGN §10). Records with a call of another ploidy - here
                    // always in an unselected column - go through the VCF containers, where the column
                    // is text that the reader never has to interpret.
                    let diploid = |g: &String| g.bytes().filter(|b| *b == b'/' || *b == b'|').count() == 1;
                    if c == Container::Bcf && !callset.recs.iter().all(|r| r.gts.iter().all(diploid)) {
                        Container::VcfGz
                    } else {
                        c
                    }
                };
            return Case::L2 {
                split,
                perm,
                callset,
                cfg,
                container,
            };
        }
        let (mut callset, cfg) = gen::gen_callset(&mut rng, &p);
        if callset.recs.len() < 2 {
            // histories need at least two records
            let s = callset.samples.clone();
            for k in 0..2 {
                let kind = rng.weighted(&p.kind_w) as u8;
                callset.recs.push(gen::gen_rec(&mut rng, kind, &s, &cfg, 0, 1000 + k));
            }
        }
        let mut items: Vec<Item> = vec![];
        let mut kinds = vec![];
        for r in &callset.recs {
            // source faults inside the history
            match rng.below(24) {
                0 => {
                    items.push(Item::SourceError {
                        contig: callset.contig_name(r.contig),
                        pos: r.pos as usize,
                        kind: rng.below(5) as u8,
                    });
                    kinds.push(100);
                }
                1 => {
                    items.push(Item::DoneOnce);
                    kinds.push(101);
                }
                _ => {}
            }
            items.push(Item::Rec {
                contig: callset.contig_name(r.contig),
                pos: r.pos as usize,
                g: r.gts.iter().map(|g| if r.no_gt { crate::simgeno::G_MISSING } else { gt_to_g(g) }).collect(),
            });
            kinds.push(r.kind);
        }
        let n = items.len();
        let mut perm: Vec<usize> = (0..n).collect();
        rng.shuffle(&mut perm);
        Case::L1 {
            samples: callset.samples,
            cfg,
            split: rng.range(0, n),
            perm,
            items,
            kinds,
        }
    }

    fn run(&self, case: &Case, ctx: &mut Ctx) -> Outcome {
        let mut out = Outcome {
            digest: FNV_INIT,
            ..Default::default()
        };
        match case {
            Case::L1 {
                samples,
                cfg,
                items,
                kinds,
                split,
                perm,
            } => {
                let hist = match drive(samples, cfg, items, items.len() + 1) {
                    Ok(h) => h,
                    Err(_) => {
                        out.count("config_rejected", 1);
                        out.evals += 1;
                        return out;
                    }
                };
                out.evals += hist.len() as u64;
                out.steps += hist.len() as u64;
                let proj = cfg.project.is_some();
                for (i, item) in items.iter().enumerate() {
                    let Some(step) = hist.get(i) else { break };
                    out.digest = fnv_u64(out.digest, fnv1a(format!("{:?}", step).as_bytes()));
                    out.count(&format!("site.{}", step.0.class()), 1);
                    if i > 0 {
                        let (a, b) = (kinds[i - 1], kinds[i]);
                        if (a as usize) < N_KINDS && (b as usize) < N_KINDS {
                            out.sigs.push(((a as u64) << 8 | b as u64) ^ ((proj as u64) << 20));
                        }
                        if a >= 100 {
                            out.count(if a == 100 { "fault.source_error_then_continue" } else { "fault.done_then_continue" }, 1);
                        }
                        if let Item::Rec { g, .. } = &items[i - 1] {
                            if g.contains(&G_PLOIDY) && matches!(hist[i - 1].0, SiteObs::Error(_)) {
                                out.count("fault.ploidy_error_then_continue", 1);
                            }
                        }
                    }
                    // reference: the same record read by a fresh reader with the same configuration
                    let fresh = match drive(samples, cfg, std::slice::from_ref(item), 1) {
                        Ok(f) => f,
                        Err(_) => continue,
                    };
                    out.evals += 1;
                    let Some(f) = fresh.first() else { continue };
                    if f != step {
                        let field = if f.0.class() != step.0.class() {
                            "class"
                        } else if f.0 != step.0 {
                            match f.0 {
                                SiteObs::Standard(_) => "counts",
                                SiteObs::Projected(_) => "projected_values",
                                _ => "message",
                            }
                        } else {
                            "skipped_samples"
                        };
                        let prev = if i > 0 { kind_name(kinds[i - 1]) } else { "none" };
                        out.violate(
                            "site_depends_on_history",
                            format!("C11 L1 site differs from fresh read field={field} projection={proj}"),
                            format!(
                                "step {i} (kind {} after {prev}): in history {:?} ; fresh {:?} ; cfg={cfg:?} item={item:?}",
                                kind_name(kinds[i]),
                                step,
                                f
                            ),
                        );
                        break;
                    }
                }
                if let Some(last) = hist.get(items.len()) {
                    if last.0 != SiteObs::Done {
                        out.violate(
                            "no_done_at_end",
                            "C11 L1 reader does not report Done after the last record".into(),
                            format!("{last:?}"),
                        );
                    }
                }
                // derived checks at spectrum level (records only, no ploidy faults)
                let recs: Vec<Item> = items
                    .iter()
                    .filter(|it| matches!(it, Item::Rec { g, .. } if !g.contains(&G_PLOIDY)))
                    .cloned()
                    .collect();
                if recs.len() >= 2 {
                    let split = (*split).min(recs.len());
                    let whole = run_spectrum(samples, cfg, &recs);
                    let a = run_spectrum(samples, cfg, &recs[..split]);
                    let b = run_spectrum(samples, cfg, &recs[split..]);
                    let mut permuted = vec![];
                    for &j in perm {
                        if let Some(Item::Rec { g, .. }) = items.get(j) {
                            if !g.contains(&G_PLOIDY) {
                                permuted.push(items[j].clone());
                            }
                        }
                    }
                    let pr = run_spectrum(samples, cfg, &permuted);
                    out.evals += 4;
                    out.steps += 3 * recs.len() as u64;
                    if let (Res::Ok(w), Res::Ok(a), Res::Ok(b), Res::Ok(pr)) = (&whole, &a, &b, &pr) {
                        out.count("additivity_checked", 1);
                        // projected cells are sums of floats added in a different order; the bound grows with
                        // the number of sites (long histories), a lost or doubled site is off by far more
                        let tol = if proj { 1e-9 * (recs.len() as f64 / 100.0).max(1.0) } else { 0.0 };
                        if recs.len() >= 512 {
                            out.count(if proj { "long_history.projected" } else { "long_history.exact" }, 1);
                        }
                        for k in 0..w.1.len() {
                            let (wv, av, bv, pv) = (f64::from_bits(w.1[k]), f64::from_bits(a.1[k]), f64::from_bits(b.1[k]), f64::from_bits(pr.1[k]));
                            if differs(wv, av + bv, tol) {
                                out.violate(
                                    "additivity",
                                    format!("C11 L1 spectrum(A||B) != spectrum(A)+spectrum(B) projection={proj}"),
                                    format!("cell {k}: whole {wv} parts {av}+{bv} split {split} cfg={cfg:?}"),
                                );
                                break;
                            }
                            if differs(wv, pv, tol) {
                                out.violate(
                                    "permutation",
                                    format!("C11 L1 permuting records changes the spectrum projection={proj}"),
                                    format!("cell {k}: original order {wv} permuted {pv} cfg={cfg:?}"),
                                );
                                break;
                            }
                        }
                    }
                }
                out.nontrivial.push(fnv1a(format!("{items:?}{cfg:?}").as_bytes()));
            }
            Case::L2 {
                callset,
                cfg,
                split,
                perm,
                container,
            } => run_l2(callset, cfg, *split, perm, *container, ctx, &mut out),
        }
        out
    }

    fn shrink(&self, case: &Case) -> Vec<Case> {
        let mut v = vec![];
        match case {
            Case::L1 {
                samples,
                cfg,
                items,
                kinds,
                split,
                perm: _,
            } => {
                let n = items.len();
                let mk = |keep: Vec<usize>| -> Case {
                    Case::L1 {
                        samples: samples.clone(),
                        cfg: cfg.clone(),
                        items: keep.iter().map(|&i| items[i].clone()).collect(),
                        kinds: keep.iter().map(|&i| kinds[i]).collect(),
                        split: (*split).min(keep.len()),
                        perm: (0..keep.len()).rev().collect(),
                    }
                };
                if n > 2 {
                    v.push(mk((0..n / 2 + 1).collect()));
                    v.push(mk((n / 2..n).collect()));
                }
                if n > 1 && n <= 14 {
                    for i in 0..n {
                        v.push(mk((0..n).filter(|&j| j != i).collect()));
                    }
                }
                // drop a sample
                if samples.len() > 1 {
                    for si in (0..samples.len()).rev() {
                        let name = &samples[si];
                        let mut c = cfg.clone();
                        if let Some(l) = c.sel.as_mut() {
                            l.retain(|(s, _)| s != name);
                            if l.is_empty() {
                                continue;
                            }
                        }
                        let mut s2 = samples.clone();
                        s2.remove(si);
                        let sizes = c.pop_sizes(&s2);
                        if let Some(p) = c.project.as_mut() {
                            if sizes.len() != p.len() {
                                continue;
                            }
                            for (t, s) in p.iter_mut().zip(sizes.iter()) {
                                *t = (*t).min(2 * s + 1);
                            }
                        }
                        let its: Vec<Item> = items
                            .iter()
                            .map(|it| match it {
                                Item::Rec { contig, pos, g } => {
                                    let mut g = g.clone();
                                    g.remove(si);
                                    Item::Rec {
                                        contig: contig.clone(),
                                        pos: *pos,
                                        g,
                                    }
                                }
                                o => o.clone(),
                            })
                            .collect();
                        v.push(Case::L1 {
                            samples: s2,
                            cfg: c,
                            items: its,
                            kinds: kinds.clone(),
                            split: *split,
                            perm: (0..n).rev().collect(),
                        });
                    }
                }
            }
            Case::L2 {
                callset,
                cfg,
                split,
                perm: _,
                container,
            } => {
                for (cs, c) in super::c18::shrink_callset(callset, cfg) {
                    let n = cs.recs.len();
                    v.push(Case::L2 {
                        callset: cs,
                        cfg: c,
                        split: (*split).min(n),
                        perm: (0..n).rev().collect(),
                        container: *container,
                    });
                }
            }
        }
        v
    }

    fn sample(&self, case: &Case) -> Value {
        match case {
            Case::L1 { samples, cfg, items, kinds, split, .. } => json!({
                "layer":"L1","samples":samples.len(),"config":cfg,
                "history": kinds.iter().map(|k| kind_name(*k)).collect::<Vec<_>>(),
                "first_item": items.first(), "split_point": split}),
            Case::L2 { callset, cfg, split, container, .. } => json!({
                "layer":"L2","container":container.name(),"records":callset.recs.len(),"args":cfg.cli_args(),"split_point":split,
                "runs":"create(A||B), create(A), create(B), create(permuted)"}),
        }
    }

    fn rule(&self) -> String {
        "A case is a history of 2..12 records drawn by kind (complete, selected-missing, only-unselected-missing, multiallelic, all-missing, monomorphic, exactly-sufficient, \
         insufficient, ploidy error in a selected / unselected sample) for a configuration with or without projection, with source faults inside the history (ReadStatus::Error at \
         record i, ploidy error mid-record, Done in the middle) after which reading continues. Every step is compared with a fresh single-record reader; the spectrum of the whole is \
         compared with the sum of the parts at a split point and with a permuted order. Every 16th case does the same through the real binary on concatenated / permuted files. \
         Evaluations = read_site calls + Runner runs + child processes; distinct non-trivial = distinct (history, configuration); the I/O-signature measure counts distinct ordered \
         (predecessor kind, successor kind, projection) triples reached."
            .to_string()
    }

    fn assumptions(&self) -> Vec<String> {
        vec![
            "The simulated source delivers genotype::Result values directly; how GT strings are classified by the real readers is C08 (not applicable) and is not judged here".into(),
            "With projection the spectrum-level comparisons allow 1e-9 absolute (floating-point summation order); the per-step comparison with a fresh reader is bit-exact".into(),
            "An errored record counts as a record: after ReadStatus::Error the next record must equal its fresh read".into(),
        ]
    }

    fn components(&self) -> Value {
        json!({
            "real": ["site::reader::Builder / site::Reader::read_site", "PartialProjection / Projected::add_unchecked", "cli Runner (include!)", "L2: sfs create binary"],
            "stubbed": ["SimGenotypeSource implementing the repository's genotype::Reader trait (bypasses VCF/BCF parsing)"]
        })
    }

    fn expected_probes(&self) -> Vec<&'static str> {
        vec![
            "site.standard",
            "site.projected",
            "site.insufficient",
            "site.error",
            "fault.source_error_then_continue",
            "fault.done_then_continue",
            "fault.ploidy_error_then_continue",
            "additivity_checked",
            "l2.additivity_checked",
        ]
    }
}

fn kind_name(k: u8) -> &'static str {
    match k {
        100 => "SOURCE_ERROR",
        101 => "DONE_ONCE",
        k if (k as usize) < N_KINDS => gen::KIND_NAMES[k as usize],
        _ => "?",
    }
}

fn run_l2(callset: &CallSet, cfg: &Config, split: usize, perm: &[usize], container: Container, ctx: &mut Ctx, out: &mut Outcome) {
    let split = split.min(callset.recs.len());
    let sub = |idx: Vec<usize>| -> Vec<u8> {
        let mut cs = callset.clone();
        cs.recs = idx.iter().filter_map(|&i| callset.recs.get(i).cloned()).collect();
        let vcf = cs.to_vcf();
        // compressed containers: one block, or many small ones (parts that span several blocks)
        let layout = Layout {
            blocks: if split % 2 == 0 { vec![] } else { vec![97; 400] },
            eof_marker: true,
            level: 6,
            bcf_minor: 0,
            no_contig_lines: false,
        };
        gen::encode(&vcf, container, &layout).map(|x| x.0).unwrap_or(vcf)
    };
    // the thread count is part of the configuration under which additivity must hold
    let threads = ["1", "2", "4", "1"][(split + perm.len()) % 4];
    let n = callset.recs.len();
    let inputs = [
        sub((0..n).collect()),
        sub((0..split).collect()),
        sub((split..n).collect()),
        sub(perm.to_vec()),
    ];
    let mut results = vec![];
    for bytes in &inputs {
        let mut args = vec!["create".to_string()];
        args.extend(cfg.cli_args());
        args.push("--precision".into());
        args.push("12".into());
        args.push("--threads".into());
        args.push(threads.into());
        args.push("@DIR@/in.dat".into());
        let child = Child {
            args,
            env: vec![],
            stdin: Stdin::Null,
            plan: None,
            files: vec![("in.dat".into(), gen::hex(bytes))],
        };
        let r = l2::run_child(ctx, &child);
        l2::cleanup(&r);
        out.evals += 1;
        out.count("l2.runs", 1);
        out.digest = fnv_u64(out.digest, r.digest());
        if l2::inconclusive(&r) {
            out.inconclusive += 1;
            return;
        }
        results.push(r);
    }
    if !results.iter().all(|r| r.ok()) {
        // A failure is either a matter of the configuration (inadmissible projection: all four fail)
        // or of one record (a non-diploid call that the container makes visible, e.g. the width of
        // a BCF genotype vector even when the odd call sits in an unselected column: the run fails
        // exactly where that record is). Both obey: the whole fails iff one of its parts fails, and a
        // permutation fails iff the original order does.
        let ok: Vec<bool> = results.iter().map(|r| r.ok()).collect();
        if ok[0] != (ok[1] && ok[2]) || ok[3] != ok[0] {
            out.violate(
                "l2_exit_differs",
                "C11 L2 exit status differs between whole, parts and permutation".into(),
                format!(
                    "{:?} stderr of the failing runs: {:?}",
                    results.iter().map(|r| r.status_class()).collect::<Vec<_>>(),
                    results.iter().filter(|r| !r.ok()).map(|r| r.stderr_text().chars().take(300).collect::<String>()).collect::<Vec<_>>()
                ),
            );
        } else {
            out.count(if ok.iter().any(|&x| x) { "l2.record_rejected" } else { "l2.config_rejected" }, 1);
        }
        return;
    }
    let parsed: Vec<Option<(String, Vec<f64>)>> = results.iter().map(|r| parse_text_spectrum(&r.stdout)).collect();
    if parsed.iter().any(|p| p.is_none()) {
        out.violate("l2_unparsable", "C11 L2 create output unparsable".into(), String::new());
        return;
    }
    let p: Vec<(String, Vec<f64>)> = parsed.into_iter().map(|x| x.unwrap()).collect();
    out.count("l2.additivity_checked", 1);
    out.nontrivial.push(fnv1a(&inputs[0]) ^ fnv1a(&inputs[3]));
    let proj = cfg.project.is_some();
    let tol = if proj { 1e-9 + 2e-12 } else { 0.0 };
    for k in 0..p[0].1.len() {
        let (w, a, b, q) = (p[0].1[k], p[1].1[k], p[2].1[k], p[3].1[k]);
        if differs(w, a + b, tol) {
            out.violate(
                "additivity",
                format!("C11 L2 create(A||B) != create(A)+create(B) projection={proj}"),
                format!("cell {k}: whole {w} parts {a}+{b} split {split} args={:?}", cfg.cli_args()),
            );
            return;
        }
        if differs(w, q, tol) {
            out.violate(
                "permutation",
                format!("C11 L2 permuting records changes the output projection={proj}"),
                format!("cell {k}: {w} vs permuted {q} args={:?}", cfg.cli_args()),
            );
            return;
        }
    }
}

/// true unless the two values agree within the tolerance; written so that a NaN on one side only
/// counts as a difference (NaN on both sides is the same outcome)
fn differs(a: f64, b: f64, tol: f64) -> bool {
    a != b && !((a - b).abs() <= tol) && !(a.is_nan() && b.is_nan())
}
