pub mod c07;
pub mod c10;
pub mod c11;
pub mod c12;
pub mod c16;
pub mod c18;
pub mod c18_l2;
pub mod c19;
