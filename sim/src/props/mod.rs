pub mod c18;
pub mod c18_l2;
