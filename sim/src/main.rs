#![allow(dead_code)]
//! simctl — deterministic simulation with fault injection for malthesr/sfs.
//!
//!   simctl check <ID> quick|thorough
//!   simctl replay <file>
//!   simctl digests <ID> <n> <jobs>         (determinism self-test helper)

mod gen;
mod harness;
mod hashseed;
mod l1;
mod l2;
mod props;
mod rng;
mod simgeno;
mod simio;

use harness::{Prop, ReplayFile, Tier};

macro_rules! dispatch {
    ($id:expr, $f:ident $(, $arg:expr)*) => {
        match $id {
            "C07" => $f(&props::c07::C07 $(, $arg)*),
            "C10" => $f(&props::c10::C10 $(, $arg)*),
            "C11" => $f(&props::c11::C11 $(, $arg)*),
            "C12" => $f(&props::c12::C12 $(, $arg)*),
            "C16" => $f(&props::c16::C16 $(, $arg)*),
            "C19" => $f(&props::c19::C19 $(, $arg)*),
            "C17" => $f(&props::c17::C17 $(, $arg)*),
            "C18" => $f(&props::c18::C18 $(, $arg)*),
            other => {
                eprintln!("harness error: no check for property {other}");
                std::process::exit(2);
            }
        }
    };
}

fn do_check<P: Prop>(p: &P, tier: Tier) -> i32 {
    harness::run_check(p, tier)
}

fn do_replay<P: Prop>(p: &P, rf: &ReplayFile) -> i32 {
    harness::replay(p, rf)
}

fn do_digests<P: Prop>(p: &P, tier: Tier, n: u64, jobs: usize) -> i32 {
    for (i, d) in harness::digests(p, tier, n, jobs).iter().enumerate() {
        println!("{i} {d:016x}");
    }
    0
}

fn main() {
    l1::init();
    let args: Vec<String> = std::env::args().collect();
    let code = match args.get(1).map(|s| s.as_str()) {
        Some("check") => {
            let id = args.get(2).map(|s| s.as_str()).unwrap_or("");
            let tier = match args.get(3).map(|s| s.as_str()) {
                Some("thorough") => Tier::Thorough,
                _ => Tier::Quick,
            };
            dispatch!(id, do_check, tier)
        }
        Some("replay") => {
            let path = args.get(2).expect("replay file");
            let text = match std::fs::read_to_string(path) {
                Ok(t) => t,
                Err(e) => {
                    eprintln!("harness error: cannot read {path}: {e}");
                    std::process::exit(2);
                }
            };
            let rf: ReplayFile = match serde_json::from_str(&text) {
                Ok(r) => r,
                Err(e) => {
                    eprintln!("harness error: cannot parse {path}: {e}");
                    std::process::exit(2);
                }
            };
            let id = rf.property.clone();
            dispatch!(id.as_str(), do_replay, &rf)
        }
        Some("digests") => {
            let id = args.get(2).map(|s| s.as_str()).unwrap_or("");
            let n: u64 = args.get(3).and_then(|s| s.parse().ok()).unwrap_or(100);
            let jobs: usize = args.get(4).and_then(|s| s.parse().ok()).unwrap_or(16);
            let tier = match args.get(5).map(|s| s.as_str()) {
                Some("thorough") => Tier::Thorough,
                _ => Tier::Quick,
            };
            dispatch!(id, do_digests, tier, n, jobs)
        }
        Some("dump-bcf") => {
            // debugging aid: encodes a VCF file as raw BCF and prints the per-record FORMAT blocks
            let vcf = std::fs::read(&args[2]).expect("vcf file");
            match gen::vcf_to_bcf(&vcf) {
                Ok(raw) => {
                    for o in gen::bcf_record_offsets(&raw) {
                        let ls = u32::from_le_bytes([raw[o], raw[o + 1], raw[o + 2], raw[o + 3]]) as usize;
                        let li = u32::from_le_bytes([raw[o + 4], raw[o + 5], raw[o + 6], raw[o + 7]]) as usize;
                        println!("{}", gen::hex(&raw[o + 8 + ls..o + 8 + ls + li]));
                    }
                    0
                }
                Err(e) => {
                    eprintln!("{e}");
                    2
                }
            }
        }
        _ => {
            eprintln!("usage: simctl check <ID> quick|thorough | replay <file> | digests <ID> <n> <jobs>");
            2
        }
    };
    std::process::exit(code);
}
