//! In-process seam for hash seeds.  std seeds `RandomState` once per thread from
//! `getrandom(2)`; by defining the `getrandom` symbol in this binary, the keys of every thread
//! that first sets a seed here become a function of that seed.  The harness runs every case
//! in a fresh thread with a fixed seed (so iteration order of any hash map inside sfs-core is
//! repeatable), and C12 uses explicit seeds as one of its dimensions.

use std::cell::Cell;

thread_local! {
    static SEED: Cell<Option<u64>> = const { Cell::new(None) };
    static CTR: Cell<u64> = const { Cell::new(0) };
}

pub fn set(seed: u64) {
    SEED.with(|s| s.set(Some(seed)));
    CTR.with(|c| c.set(0));
}

/// # Safety
/// Called by std/libc users with a valid buffer of `len` bytes.
#[no_mangle]
pub unsafe extern "C" fn getrandom(buf: *mut libc::c_void, len: libc::size_t, flags: libc::c_uint) -> libc::ssize_t {
    let seed = SEED.try_with(|s| s.get()).ok().flatten();
    match seed {
        None => libc::syscall(libc::SYS_getrandom, buf, len, flags) as libc::ssize_t,
        Some(seed) => {
            let ctr = CTR.with(|c| {
                let v = c.get();
                c.set(v + 1);
                v
            });
            let mut st = seed ^ ctr.wrapping_mul(0x2545_f491_4f6c_dd1d);
            let p = buf as *mut u8;
            let mut i = 0;
            while i < len {
                let v = crate::rng::splitmix64(&mut st).to_le_bytes();
                let n = (len - i).min(8);
                std::ptr::copy_nonoverlapping(v.as_ptr(), p.add(i), n);
                i += n;
            }
            len as libc::ssize_t
        }
    }
}

/// Runs `f` in a fresh thread whose hash keys derive from `seed`.
pub fn with_seed<T: Send>(seed: u64, f: impl FnOnce() -> T + Send) -> T {
    std::thread::scope(|s| {
        s.spawn(move || {
            set(seed);
            f()
        })
        .join()
        .expect("case thread panicked")
    })
}
