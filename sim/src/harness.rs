//! The deciding loop: seeded cases -> run under the simulator -> oracles -> (on violation)
//! minimise, write replay file, replay it in a fresh process, report.  Also evidence.

use std::{
    collections::{BTreeMap, HashSet},
    path::PathBuf,
    sync::{
        atomic::{AtomicU64, Ordering},
        Mutex,
    },
    time::Instant,
};

use serde::{de::DeserializeOwned, Deserialize, Serialize};
use serde_json::{json, Value};

use crate::rng::{fnv1a, mix, stream_of};

#[derive(Clone, Copy, Debug, PartialEq, Eq)]
pub enum Tier {
    Quick,
    Thorough,
}

impl Tier {
    pub fn name(self) -> &'static str {
        match self {
            Tier::Quick => "quick",
            Tier::Thorough => "thorough",
        }
    }
}

#[derive(Clone, Debug, Serialize, Deserialize)]
pub struct Violation {
    /// which oracle clause failed (stable identifier)
    pub clause: String,
    /// identifies the specific failing input class / call site / history (known-findings key)
    pub key: String,
    pub detail: String,
}

#[derive(Default, Debug)]
pub struct Outcome {
    pub violations: Vec<Violation>,
    /// executions of real code performed for this case
    pub evals: u64,
    /// logical steps simulated (I/O calls + record reads)
    pub steps: u64,
    /// counters incremented only when something actually happened
    pub counters: Vec<(String, u64)>,
    /// I/O-trace signatures reached
    pub sigs: Vec<u64>,
    /// hashes of distinct non-trivial executions
    pub nontrivial: Vec<u64>,
    /// digest over event logs and oracle-relevant outcomes (determinism check)
    pub digest: u64,
    pub inconclusive: u64,
}

impl Outcome {
    pub fn count(&mut self, name: &str, n: u64) {
        if n == 0 {
            return;
        }
        for c in self.counters.iter_mut() {
            if c.0 == name {
                c.1 += n;
                return;
            }
        }
        self.counters.push((name.to_string(), n));
    }
    pub fn violate(&mut self, clause: &str, key: String, detail: String) {
        self.violations.push(Violation {
            clause: clause.to_string(),
            key,
            detail,
        });
    }
}

/// Per-worker context.
pub struct Ctx {
    pub worker: usize,
    pub scratch: PathBuf,
    pub sfs_bin: PathBuf,
    pub shim: PathBuf,
    pub tier: Tier,
    pub serial: u64,
    /// CPU-seconds limit of child processes (protects the sandbox; exceeding it is inconclusive)
    pub cpu_limit: u64,
}

pub trait Prop: Sync {
    type Case: Serialize + DeserializeOwned + Clone + Send + Sync + 'static;
    fn id(&self) -> &'static str;
    fn level(&self) -> &'static str;
    fn n_cases(&self, tier: Tier) -> u64;
    /// a case is a pure function of its seed (and the tier)
    fn gen(&self, case_seed: u64, idx: u64, tier: Tier) -> Self::Case;
    fn run(&self, case: &Self::Case, ctx: &mut Ctx) -> Outcome;
    /// simpler candidate cases (tried in order by the minimiser)
    fn shrink(&self, case: &Self::Case) -> Vec<Self::Case>;
    /// short human-readable rendering for evidence samples
    fn sample(&self, case: &Self::Case) -> Value;
    fn rule(&self) -> String;
    fn assumptions(&self) -> Vec<String>;
    /// real vs stubbed components
    fn components(&self) -> Value;
    /// counters that the generator is expected to reach in a quick run
    fn expected_probes(&self) -> Vec<&'static str> {
        vec![]
    }
    fn needs_l2(&self) -> bool {
        false
    }
    /// run every case in a fresh thread with seeded hash keys (needed where the code under
    /// test creates hash maps: the create path)
    fn isolate(&self) -> bool {
        false
    }
}

#[derive(Clone, Debug, Serialize, Deserialize)]
pub struct Finding {
    pub property: String,
    pub key: String,
    pub what: String,
    pub status: String,
    #[serde(default)]
    pub commit: Option<String>,
}

#[derive(Clone, Debug, Default, Serialize, Deserialize)]
pub struct Findings {
    pub findings: Vec<Finding>,
}

pub fn verif_root() -> PathBuf {
    std::env::var("VERIF_ROOT").map(PathBuf::from).unwrap_or_else(|_| PathBuf::from("/verif"))
}

pub fn load_findings() -> Findings {
    let p = verif_root().join("known_findings.json");
    match std::fs::read_to_string(&p) {
        Ok(s) => match serde_json::from_str(&s) {
            Ok(f) => f,
            Err(e) => {
                eprintln!("harness error: cannot parse {}: {e}", p.display());
                std::process::exit(2);
            }
        },
        Err(_) => Findings::default(),
    }
}

// ---- fault / schedule trace of the execution that is written into a replay file -------------
// Filled only while `report_violation` re-executes the minimised case (single-threaded phase), so
// recording never perturbs a run: nothing here draws randomness or reads a clock.
static TRACE_ON: std::sync::atomic::AtomicBool = std::sync::atomic::AtomicBool::new(false);
static TRACE_SINK: Mutex<Vec<String>> = Mutex::new(Vec::new());

pub fn trace_on() -> bool {
    TRACE_ON.load(Ordering::Relaxed)
}

pub fn trace_note(line: String) {
    if trace_on() {
        let mut t = TRACE_SINK.lock().unwrap();
        if t.len() < 1500 {
            t.push(line);
        }
    }
}

#[derive(Serialize, Deserialize)]
pub struct ReplayFile {
    pub property: String,
    pub verif_seed: u64,
    pub case_index: u64,
    pub case_seed: u64,
    pub tier: String,
    pub clause: String,
    pub key: String,
    pub detail: String,
    pub digest: u64,
    pub minimised: bool,
    pub shrink_steps: u64,
    pub case: Value,
    /// I/O calls, injected faults and child processes of the (minimised) failing execution
    #[serde(default)]
    pub trace: Vec<String>,
}

pub fn make_ctx(worker: usize, tier: Tier) -> Ctx {
    let root = verif_root();
    let scratch = root
        .join("build")
        .join("scratch")
        .join(format!("{}-{}", std::process::id(), worker));
    let _ = std::fs::create_dir_all(&scratch);
    Ctx {
        worker,
        scratch,
        sfs_bin: std::env::var("VERIF_SFS_BIN")
            .map(PathBuf::from)
            .unwrap_or_else(|_| root.join("build/target-sfs/debug/sfs")),
        shim: root.join("build/libsimio.so"),
        tier,
        serial: 0,
        cpu_limit: 30,
    }
}

pub fn cleanup_scratch() {
    let root = verif_root().join("build").join("scratch");
    if let Ok(rd) = std::fs::read_dir(&root) {
        let prefix = format!("{}-", std::process::id());
        for e in rd.flatten() {
            if e.file_name().to_string_lossy().starts_with(&prefix) {
                let _ = std::fs::remove_dir_all(e.path());
            }
        }
    }
}

fn env_u64(name: &str) -> Option<u64> {
    std::env::var(name).ok().and_then(|s| s.trim().parse().ok())
}

struct Agg {
    evals: u64,
    steps: u64,
    counters: BTreeMap<String, u64>,
    sigs: HashSet<u64>,
    nontrivial: HashSet<u64>,
    inconclusive: u64,
    violations: Vec<(u64, Violation)>,
    digests: Vec<(u64, u64)>,
}

/// Default hash seed of a case thread.
pub const CASE_HASHSEED: u64 = 0x5eed_0000_0000_0001;

/// Every case runs in a fresh thread with seeded hash keys (see `hashseed`).
pub fn run_isolated<P: Prop>(p: &P, case: &P::Case, ctx: &mut Ctx) -> Outcome {
    if p.isolate() {
        crate::hashseed::with_seed(CASE_HASHSEED, || p.run(case, ctx))
    } else {
        p.run(case, ctx)
    }
}

fn run_one<P: Prop>(p: &P, seed: u64, idx: u64, tier: Tier, ctx: &mut Ctx) -> (P::Case, Outcome) {
    let cs = mix(seed, stream_of(p.id()), idx);
    let case = p.gen(cs, idx, tier);
    let out = run_isolated(p, &case, ctx);
    (case, out)
}

/// Runs a whole check. Returns the process exit code.
pub fn run_check<P: Prop>(p: &P, tier: Tier) -> i32 {
    let t0 = Instant::now();
    let seed = env_u64("VERIF_SEED").unwrap_or(1);
    let jobs = env_u64("VERIF_JOBS").unwrap_or(16).max(1) as usize;
    let n = env_u64("VERIF_CASES").unwrap_or_else(|| p.n_cases(tier));
    println!("VERIF_SEED={seed} property={} tier={} cases={n} jobs={jobs}", p.id(), tier.name());

    let next = AtomicU64::new(0);
    let agg = Mutex::new(Agg {
        evals: 0,
        steps: 0,
        counters: BTreeMap::new(),
        sigs: HashSet::new(),
        nontrivial: HashSet::new(),
        inconclusive: 0,
        violations: vec![],
        digests: vec![],
    });

    std::thread::scope(|s| {
        for w in 0..jobs {
            let next = &next;
            let agg = &agg;
            s.spawn(move || {
                let mut ctx = make_ctx(w, tier);
                let mut local = Agg {
                    evals: 0,
                    steps: 0,
                    counters: BTreeMap::new(),
                    sigs: HashSet::new(),
                    nontrivial: HashSet::new(),
                    inconclusive: 0,
                    violations: vec![],
                    digests: vec![],
                };
                loop {
                    let idx = next.fetch_add(1, Ordering::Relaxed);
                    if idx >= n {
                        break;
                    }
                    let (_case, out) = run_one(p, seed, idx, tier, &mut ctx);
                    local.evals += out.evals;
                    local.steps += out.steps;
                    local.inconclusive += out.inconclusive;
                    for (k, v) in out.counters {
                        *local.counters.entry(k).or_insert(0) += v;
                    }
                    local.sigs.extend(out.sigs);
                    local.nontrivial.extend(out.nontrivial);
                    // 1 % of the cases are re-executed to check determinism of the simulator
                    if idx % 100 == 7 {
                        local.digests.push((idx, out.digest));
                    }
                    for v in out.violations {
                        local.violations.push((idx, v));
                    }
                }
                let mut a = agg.lock().unwrap();
                a.evals += local.evals;
                a.steps += local.steps;
                a.inconclusive += local.inconclusive;
                for (k, v) in local.counters {
                    *a.counters.entry(k).or_insert(0) += v;
                }
                a.sigs.extend(local.sigs);
                a.nontrivial.extend(local.nontrivial);
                a.violations.extend(local.violations);
                a.digests.extend(local.digests);
            });
        }
    });
    let mut a = agg.into_inner().unwrap();
    a.violations.sort_by(|x, y| (x.0, &x.1.key, &x.1.clause).cmp(&(y.0, &y.1.key, &y.1.clause)));
    a.digests.sort();

    // determinism re-execution (single-threaded, different worker slot)
    let mut ctx = make_ctx(jobs + 1, tier);
    let mut nondeterministic = vec![];
    for (idx, d) in a.digests.iter().take(200) {
        let (_c, out) = run_one(p, seed, *idx, tier, &mut ctx);
        if out.digest != *d {
            nondeterministic.push(*idx);
        }
    }
    if !nondeterministic.is_empty() {
        eprintln!(
            "harness error: re-execution of case(s) {:?} gave a different event-log digest (simulator not deterministic)",
            &nondeterministic[..nondeterministic.len().min(5)]
        );
    }

    // triage violations: known findings vs new
    let findings = load_findings();
    let mut seen_keys: Vec<String> = vec![];
    let mut known_printed: HashSet<String> = HashSet::new();
    let mut new_violations = 0u64;
    let mut known_hits: BTreeMap<String, u64> = BTreeMap::new();
    let mut replay_paths = vec![];
    let t_report = std::time::Instant::now();
    for (idx, v) in &a.violations {
        if let Some(f) = findings
            .findings
            .iter()
            .find(|f| {
                f.property == p.id()
                    && f.status == "open"
                    && (f.key == v.key || (f.key.ends_with('*') && v.key.starts_with(f.key.trim_end_matches('*'))))
            })
        {
            *known_hits.entry(f.key.clone()).or_insert(0) += 1;
            if known_printed.insert(f.key.clone()) {
                println!("KNOWN-FINDING: property={} key={} {}", p.id(), f.key, f.what);
            }
            continue;
        }
        if seen_keys.contains(&v.key) {
            continue;
        }
        seen_keys.push(v.key.clone());
        new_violations += 1;
        // bound the work (all violations are counted): at most 40 replay files, and no further
        // ones once reporting has taken 5 minutes (each file costs a traced re-execution)
        if new_violations > 40 || (new_violations > 1 && t_report.elapsed().as_secs() > 300) {
            continue;
        }
        // the first few distinct violations are minimised; the rest are written as they are
        let path = report_violation(p, seed, *idx, v, tier, &mut ctx, new_violations <= 8);
        println!("VIOLATION property={} replay={}", p.id(), path.display());
        println!("  clause={} key={}", v.clause, v.key);
        println!("  detail={}", truncate(&v.detail, 600));
        replay_paths.push(path.display().to_string());
    }

    // evidence
    let wall = t0.elapsed().as_secs_f64();
    let mut samples = vec![];
    for i in 0..3u64.min(n) {
        let idx = i * (n / 3).max(1);
        let cs = mix(seed, stream_of(p.id()), idx);
        samples.push(json!({"case_index": idx, "case": p.sample(&p.gen(cs, idx, tier))}));
    }
    let unreached: Vec<&str> = p
        .expected_probes()
        .into_iter()
        .filter(|k| a.counters.get(*k).copied().unwrap_or(0) == 0)
        .collect();
    let fault_counts: BTreeMap<&String, &u64> = a.counters.iter().filter(|(k, _)| k.starts_with("fault.")).collect();
    let probe_counts: BTreeMap<&String, &u64> = a.counters.iter().filter(|(k, _)| !k.starts_with("fault.")).collect();
    let evidence = json!({
        "property_id": p.id(),
        "tier": tier.name(),
        "seed": seed,
        "level": p.level(),
        "coverage": {
            "evaluations": a.evals,
            "distinct_nontrivial": a.nontrivial.len(),
            "rule": p.rule(),
            "samples": samples,
            "cases": n,
            "logical_steps_simulated": a.steps,
            "simulated_time": "none: nothing in sfs reads a clock; reach is reported as logical steps (simulated I/O calls + record reads)",
            "runs_per_hour": if wall > 0.0 { (a.evals as f64 / wall * 3600.0) as u64 } else { 0 },
            "seeds": format!("VERIF_SEED={seed}; per-case seeds mix(VERIF_SEED, '{}', 0..{n})", p.id()),
            "faults_fired": fault_counts,
            "probes": probe_counts,
            "probes_unreached": unreached,
            "distinct_io_trace_signatures": a.sigs.len(),
            "inconclusive": a.inconclusive,
            "determinism_reexecutions": a.digests.len().min(200),
            "determinism_mismatches": nondeterministic.len(),
            "known_findings_hit": known_hits,
            "components": p.components(),
            "exhaustive": false,
        },
        "assumptions": p.assumptions(),
        "wall_s": wall,
        "violations": new_violations,
        "replays": replay_paths,
    });
    let ev_dir = std::env::var("VERIF_EVIDENCE_DIR").map(PathBuf::from).unwrap_or_else(|_| verif_root().join("evidence"));
    let _ = std::fs::create_dir_all(&ev_dir);
    let ev_path = ev_dir.join(format!("{}.json", p.id()));
    if let Err(e) = std::fs::write(&ev_path, serde_json::to_string_pretty(&evidence).unwrap()) {
        eprintln!("harness error: cannot write {}: {e}", ev_path.display());
        return 2;
    }
    println!(
        "property={} tier={} cases={} evaluations={} distinct_nontrivial={} io_signatures={} steps={} wall_s={:.1} new_violations={} known_findings_hit={}",
        p.id(),
        tier.name(),
        n,
        a.evals,
        a.nontrivial.len(),
        a.sigs.len(),
        a.steps,
        wall,
        new_violations,
        known_hits.len()
    );
    if !unreached.is_empty() {
        println!("note: probes not reached in this run: {unreached:?}");
    }
    cleanup_scratch();
    if !nondeterministic.is_empty() {
        return 2;
    }
    if new_violations > 0 {
        1
    } else {
        0
    }
}

pub fn truncate(s: &str, n: usize) -> String {
    if s.len() <= n {
        s.to_string()
    } else {
        let mut end = n;
        while !s.is_char_boundary(end) {
            end -= 1;
        }
        format!("{}...", &s[..end])
    }
}

fn same_violation(out: &Outcome, v: &Violation) -> Option<Violation> {
    out.violations
        .iter()
        .find(|x| x.clause == v.clause && x.key == v.key)
        .cloned()
}

fn report_violation<P: Prop>(p: &P, seed: u64, idx: u64, v: &Violation, tier: Tier, ctx: &mut Ctx, minimise: bool) -> PathBuf {
    let cs = mix(seed, stream_of(p.id()), idx);
    let mut case = p.gen(cs, idx, tier);
    let mut cur_v = v.clone();
    // delta debugging: accept a step only if the same clause with the same key still fails
    let mut steps = 0u64;
    let mut execs = 0u64;
    let mut progress = minimise;
    // minimisation is bounded in re-executions and in wall time (VERIF_SHRINK_SECS, default 90 s per
    // violation): the verdict never depends on it, only how small the replay file gets
    let t0 = std::time::Instant::now();
    let budget = std::env::var("VERIF_SHRINK_SECS").ok().and_then(|s| s.parse::<u64>().ok()).unwrap_or(90);
    // and 300 s per run over all violations
    static SHRINK_SPENT: std::sync::atomic::AtomicU64 = std::sync::atomic::AtomicU64::new(0);
    let budget = budget.min(300u64.saturating_sub(SHRINK_SPENT.load(Ordering::Relaxed)));
    while progress && execs < 400 && t0.elapsed().as_secs() < budget {
        progress = false;
        for cand in p.shrink(&case) {
            execs += 1;
            if execs > 400 || t0.elapsed().as_secs() >= budget {
                break;
            }
            let out = run_isolated(p, &cand, ctx);
            if let Some(nv) = same_violation(&out, v) {
                case = cand;
                cur_v = nv;
                steps += 1;
                progress = true;
                break;
            }
        }
    }
    SHRINK_SPENT.fetch_add(t0.elapsed().as_secs(), Ordering::Relaxed);
    TRACE_SINK.lock().unwrap().clear();
    TRACE_ON.store(true, Ordering::Relaxed);
    let out = run_isolated(p, &case, ctx);
    TRACE_ON.store(false, Ordering::Relaxed);
    let trace = std::mem::take(&mut *TRACE_SINK.lock().unwrap());
    let digest = out.digest;
    let rf = ReplayFile {
        property: p.id().to_string(),
        verif_seed: seed,
        case_index: idx,
        case_seed: cs,
        tier: tier.name().to_string(),
        clause: cur_v.clause.clone(),
        key: cur_v.key.clone(),
        detail: cur_v.detail.clone(),
        digest,
        minimised: steps > 0,
        shrink_steps: steps,
        case: serde_json::to_value(&case).unwrap(),
        trace,
    };
    let dir = std::env::var("VERIF_REPLAY_DIR").map(PathBuf::from).unwrap_or_else(|_| verif_root().join("replays"));
    let _ = std::fs::create_dir_all(&dir);
    let path = dir.join(format!(
        "{}-{}-{}-{:08x}.json",
        p.id(),
        seed,
        idx,
        fnv1a(v.key.as_bytes()) as u32
    ));
    std::fs::write(&path, serde_json::to_string_pretty(&rf).unwrap()).expect("write replay");
    // fresh-process replay
    let exe = std::env::current_exe().unwrap();
    match std::process::Command::new(exe).arg("replay").arg(&path).output() {
        Ok(o) => {
            let so = String::from_utf8_lossy(&o.stdout);
            if !so.contains("REPRODUCED") || so.contains("NOT-REPRODUCED") {
                eprintln!(
                    "harness warning: fresh-process replay of {} did not reproduce: {}",
                    path.display(),
                    truncate(&so, 300)
                );
            }
        }
        Err(e) => eprintln!("harness warning: cannot spawn replay: {e}"),
    }
    path
}

/// `simctl replay <file>`: exit 1 + "REPRODUCED" if the recorded violation recurs exactly.
pub fn replay<P: Prop>(p: &P, rf: &ReplayFile) -> i32 {
    let case: P::Case = match serde_json::from_value(rf.case.clone()) {
        Ok(c) => c,
        Err(e) => {
            eprintln!("harness error: cannot decode case: {e}");
            return 2;
        }
    };
    let tier = if rf.tier == "thorough" { Tier::Thorough } else { Tier::Quick };
    let mut ctx = make_ctx(0, tier);
    let out = run_isolated(p, &case, &mut ctx);
    cleanup_scratch();
    let same = out.violations.iter().find(|x| x.clause == rf.clause && x.key == rf.key);
    match same {
        Some(v) => {
            let exact = out.digest == rf.digest;
            println!(
                "REPRODUCED property={} clause={} key={} digest_match={}",
                rf.property, v.clause, v.key, exact
            );
            println!("  detail={}", truncate(&v.detail, 1000));
            1
        }
        None => {
            println!(
                "NOT-REPRODUCED property={} clause={} key={} (violations now: {:?})",
                rf.property,
                rf.clause,
                rf.key,
                out.violations.iter().map(|v| &v.key).collect::<Vec<_>>()
            );
            0
        }
    }
}

/// Digests of the first `n` cases (determinism self-test).
pub fn digests<P: Prop>(p: &P, tier: Tier, n: u64, jobs: usize) -> Vec<u64> {
    let seed = env_u64("VERIF_SEED").unwrap_or(1);
    let next = AtomicU64::new(0);
    let res = Mutex::new(vec![0u64; n as usize]);
    std::thread::scope(|s| {
        for w in 0..jobs {
            let next = &next;
            let res = &res;
            s.spawn(move || {
                let mut ctx = make_ctx(w, tier);
                loop {
                    let idx = next.fetch_add(1, Ordering::Relaxed);
                    if idx >= n {
                        break;
                    }
                    let (_c, out) = run_one(p, seed, idx, tier, &mut ctx);
                    let mut d = out.digest;
                    for v in &out.violations {
                        d = crate::rng::fnv1a_add(d, v.key.as_bytes());
                    }
                    res.lock().unwrap()[idx as usize] = d;
                }
            });
        }
    });
    cleanup_scratch();
    res.into_inner().unwrap()
}
