//! Simulated byte transports: a reader whose `read` results follow an explicit chunk
//! schedule and fault plan, and a writer that accepts only what its schedule allows.
//! Every call is appended to a per-case event log (global sequence number, operation,
//! offset, requested length, result).  Nothing in here draws randomness or reads a clock.

use std::{
    cell::RefCell,
    io::{self, Read, Write},
    rc::Rc,
};

use serde::{Deserialize, Serialize};

use crate::rng::{fnv1a_add, fnv_u64, Rng, FNV_INIT};

#[derive(Clone, Copy, Debug, PartialEq, Eq, Serialize, Deserialize)]
pub enum ErrKind {
    /// EIO-like
    Other,
    BrokenPipe,
    ConnectionReset,
    TimedOut,
    WouldBlock,
    PermissionDenied,
    /// ENOSPC-like (write side)
    StorageFull,
    /// EINTR
    Interrupted,
}

impl ErrKind {
    pub fn to_io(self) -> io::Error {
        let k = match self {
            ErrKind::Other => io::ErrorKind::Other,
            ErrKind::BrokenPipe => io::ErrorKind::BrokenPipe,
            ErrKind::ConnectionReset => io::ErrorKind::ConnectionReset,
            ErrKind::TimedOut => io::ErrorKind::TimedOut,
            ErrKind::WouldBlock => io::ErrorKind::WouldBlock,
            ErrKind::PermissionDenied => io::ErrorKind::PermissionDenied,
            ErrKind::StorageFull => io::ErrorKind::Other,
            ErrKind::Interrupted => io::ErrorKind::Interrupted,
        };
        io::Error::new(k, format!("simulated {:?}", self))
    }
    pub fn name(self) -> &'static str {
        match self {
            ErrKind::Other => "read_or_write_error_eio",
            ErrKind::BrokenPipe => "broken_pipe",
            ErrKind::ConnectionReset => "connection_reset",
            ErrKind::TimedOut => "timed_out",
            ErrKind::WouldBlock => "would_block",
            ErrKind::PermissionDenied => "permission_denied",
            ErrKind::StorageFull => "storage_full_enospc",
            ErrKind::Interrupted => "eintr",
        }
    }
    pub const READ_KINDS: [ErrKind; 6] = [
        ErrKind::Other,
        ErrKind::BrokenPipe,
        ErrKind::ConnectionReset,
        ErrKind::TimedOut,
        ErrKind::WouldBlock,
        ErrKind::PermissionDenied,
    ];
    pub const WRITE_KINDS: [ErrKind; 4] = [
        ErrKind::StorageFull,
        ErrKind::Other,
        ErrKind::BrokenPipe,
        ErrKind::WouldBlock,
    ];
}

/// Chunk schedule: call i moves at most `chunks[i]` bytes; calls beyond the list move at
/// most `rest` bytes.
#[derive(Clone, Debug, PartialEq, Serialize, Deserialize)]
pub struct Schedule {
    pub chunks: Vec<usize>,
    pub rest: usize,
}

impl Schedule {
    pub fn oneshot() -> Self {
        Schedule {
            chunks: vec![],
            rest: usize::MAX / 4,
        }
    }
    pub fn uniform(n: usize) -> Self {
        Schedule {
            chunks: vec![],
            rest: n.max(1),
        }
    }
    pub fn first_then(first: usize, rest: usize) -> Self {
        Schedule {
            chunks: vec![first.max(1)],
            rest: rest.max(1),
        }
    }
    fn at(&self, i: usize) -> usize {
        self.chunks.get(i).copied().unwrap_or(self.rest).max(1)
    }
    pub fn is_oneshot(&self) -> bool {
        self.chunks.is_empty() && self.rest >= usize::MAX / 8
    }
}

/// Fault plan for one stream. `fail`: the call that would start at byte `offset` (data calls
/// crossing it are cut there) returns the error once; later calls proceed normally, so a
/// caller that swallows the error would go on to read/write the complete data.
/// `eintr`: data-call indices (0-based, counted over all calls) that fail with EINTR.
#[derive(Clone, Debug, Default, PartialEq, Serialize, Deserialize)]
pub struct Faults {
    pub fail: Vec<(usize, ErrKind)>,
    pub eintr: Vec<usize>,
    /// write side only: call indices that return Ok(0)
    pub zero: Vec<usize>,
}

impl Faults {
    pub fn none() -> Self {
        Faults::default()
    }
    pub fn is_none(&self) -> bool {
        self.fail.is_empty() && self.eintr.is_empty() && self.zero.is_empty()
    }
}

#[derive(Clone, Debug, PartialEq, Serialize, Deserialize)]
pub struct Event {
    pub seq: u64,
    pub op: char, // 'r' read, 'w' write, 'f' flush
    pub off: usize,
    pub req: usize,
    /// >= 0: bytes moved; < 0: -(1 + ErrKind index)
    pub ret: i64,
}

/// Per-case event log shared by all simulated endpoints of the case.
#[derive(Debug, Default)]
pub struct Trace {
    pub seq: u64,
    pub events: Vec<Event>,
    pub digest: u64,
    pub sig: u64,
    pub reads: u64,
    pub writes: u64,
    pub fired: Vec<(ErrKind, char)>,
    pub read_err_fired: u64,
    pub write_err_fired: u64,
    pub eintr_fired: u64,
    pub zero_fired: u64,
    pub aborted: bool,
}

pub const MAX_STORED_EVENTS: usize = 512;

impl Trace {
    pub fn new() -> Self {
        Trace {
            digest: FNV_INIT,
            sig: FNV_INIT,
            ..Default::default()
        }
    }
    fn push(&mut self, op: char, off: usize, req: usize, ret: i64) {
        self.seq += 1;
        self.digest = fnv_u64(self.digest, op as u64);
        self.digest = fnv_u64(self.digest, off as u64);
        self.digest = fnv_u64(self.digest, req as u64);
        self.digest = fnv_u64(self.digest, ret as u64);
        // signature: sequence of (op, returned-length class, error kind)
        let class: u64 = if ret < 0 {
            1000 + (-ret) as u64
        } else if ret == 0 {
            0
        } else if (ret as usize) < req {
            1 + (64 - (ret as u64).leading_zeros() as u64) // short: log2 class
        } else {
            100
        };
        self.sig = fnv_u64(self.sig, (op as u64) << 32 | class);
        if self.events.len() < MAX_STORED_EVENTS {
            self.events.push(Event {
                seq: self.seq,
                op,
                off,
                req,
                ret,
            });
        }
    }
    /// Writes the recorded events into the replay trace (no-op unless a replay file is being written).
    pub fn dump(&self, label: &str) {
        if !crate::harness::trace_on() {
            return;
        }
        crate::harness::trace_note(format!("-- {label}: {} simulated I/O calls", self.seq));
        for e in &self.events {
            let ret = if e.ret < 0 { format!("ERR#{}", -e.ret - 1) } else { e.ret.to_string() };
            crate::harness::trace_note(format!("   #{} {} off={} req={} -> {}", e.seq, e.op, e.off, e.req, ret));
        }
    }

    pub fn note(&mut self, what: &str) {
        self.digest = fnv1a_add(self.digest, what.as_bytes());
    }
}

pub type SharedTrace = Rc<RefCell<Trace>>;

pub fn new_trace() -> SharedTrace {
    Rc::new(RefCell::new(Trace::new()))
}

fn err_code(k: ErrKind) -> i64 {
    -(1 + k as i64)
}

/// The raw simulated reader (the "operating system" side). Wrap it in
/// `std::io::BufReader::with_capacity` to obtain what sfs sees for a file or stdin.
pub struct SimRead {
    data: Rc<Vec<u8>>,
    pos: usize,
    sched: Schedule,
    faults: Faults,
    fired: Vec<bool>,
    calls: usize,
    data_calls: usize,
    cap: usize,
    trace: SharedTrace,
}

impl SimRead {
    pub fn new(data: Rc<Vec<u8>>, sched: Schedule, faults: Faults, trace: SharedTrace) -> Self {
        // every non-faulted call moves at least one byte, so a correct consumer cannot need
        // more calls than this; beyond it the run is declared aborted (inconclusive).
        let cap = data.len() + faults.eintr.len() + faults.fail.len() + 64;
        SimRead {
            fired: vec![false; faults.fail.len()],
            data,
            pos: 0,
            sched,
            faults,
            calls: 0,
            data_calls: 0,
            cap,
            trace,
        }
    }
}

impl Read for SimRead {
    fn read(&mut self, buf: &mut [u8]) -> io::Result<usize> {
        let call = self.calls;
        self.calls += 1;
        let mut t = self.trace.borrow_mut();
        t.reads += 1;
        if call > self.cap {
            t.aborted = true;
            t.push('r', self.pos, buf.len(), err_code(ErrKind::Other));
            return Err(io::Error::new(io::ErrorKind::Other, "simulator step cap"));
        }
        if buf.is_empty() {
            t.push('r', self.pos, 0, 0);
            return Ok(0);
        }
        if self.faults.eintr.contains(&call) {
            t.eintr_fired += 1;
            t.fired.push((ErrKind::Interrupted, 'r'));
            t.push('r', self.pos, buf.len(), err_code(ErrKind::Interrupted));
            return Err(ErrKind::Interrupted.to_io());
        }
        for (i, (off, kind)) in self.faults.fail.iter().enumerate() {
            if !self.fired[i] && *off == self.pos {
                self.fired[i] = true;
                t.read_err_fired += 1;
                t.fired.push((*kind, 'r'));
                t.push('r', self.pos, buf.len(), err_code(*kind));
                return Err(kind.to_io());
            }
        }
        let mut n = buf
            .len()
            .min(self.sched.at(self.data_calls))
            .min(self.data.len() - self.pos);
        for (i, (off, _)) in self.faults.fail.iter().enumerate() {
            if !self.fired[i] && *off > self.pos && *off < self.pos + n {
                n = *off - self.pos;
            }
        }
        self.data_calls += 1;
        buf[..n].copy_from_slice(&self.data[self.pos..self.pos + n]);
        t.push('r', self.pos, buf.len(), n as i64);
        self.pos += n;
        Ok(n)
    }
}

/// The simulated writer.
pub struct SimWrite {
    pub accepted: Rc<RefCell<Vec<u8>>>,
    sched: Schedule,
    faults: Faults,
    fired: Vec<bool>,
    calls: usize,
    data_calls: usize,
    trace: SharedTrace,
}

impl SimWrite {
    pub fn new(sched: Schedule, faults: Faults, trace: SharedTrace) -> Self {
        SimWrite {
            accepted: Rc::new(RefCell::new(Vec::new())),
            fired: vec![false; faults.fail.len()],
            sched,
            faults,
            calls: 0,
            data_calls: 0,
            trace,
        }
    }
}

impl Write for SimWrite {
    fn write(&mut self, buf: &[u8]) -> io::Result<usize> {
        let call = self.calls;
        self.calls += 1;
        let mut t = self.trace.borrow_mut();
        t.writes += 1;
        let pos = self.accepted.borrow().len();
        if buf.is_empty() {
            t.push('w', pos, 0, 0);
            return Ok(0);
        }
        if call > 400_000_000 {
            t.aborted = true;
            return Err(io::Error::new(io::ErrorKind::Other, "simulator step cap"));
        }
        if self.faults.eintr.contains(&call) {
            t.eintr_fired += 1;
            t.fired.push((ErrKind::Interrupted, 'w'));
            t.push('w', pos, buf.len(), err_code(ErrKind::Interrupted));
            return Err(ErrKind::Interrupted.to_io());
        }
        if self.faults.zero.contains(&call) {
            t.zero_fired += 1;
            t.push('w', pos, buf.len(), 0);
            return Ok(0);
        }
        for (i, (off, kind)) in self.faults.fail.iter().enumerate() {
            if !self.fired[i] && *off == pos {
                self.fired[i] = true;
                t.write_err_fired += 1;
                t.fired.push((*kind, 'w'));
                t.push('w', pos, buf.len(), err_code(*kind));
                return Err(kind.to_io());
            }
        }
        let mut n = buf.len().min(self.sched.at(self.data_calls));
        for (i, (off, _)) in self.faults.fail.iter().enumerate() {
            if !self.fired[i] && *off > pos && *off < pos + n {
                n = *off - pos;
            }
        }
        self.data_calls += 1;
        self.accepted.borrow_mut().extend_from_slice(&buf[..n]);
        t.push('w', pos, buf.len(), n as i64);
        Ok(n)
    }

    fn flush(&mut self) -> io::Result<()> {
        let mut t = self.trace.borrow_mut();
        let pos = self.accepted.borrow().len();
        t.push('f', pos, 0, 0);
        Ok(())
    }
}

/// Families of chunk schedules (swarm style: a run first draws the family).
pub fn gen_schedule(rng: &mut Rng, len: usize, boundaries: &[usize]) -> Schedule {
    let fam = rng.below(9);
    let first = gen_first_chunk(rng, len, boundaries);
    match fam {
        0 => Schedule::uniform(1),
        1 => Schedule::oneshot(),
        2 => {
            // geometric small
            let n = rng.range(1, 40);
            let chunks = (0..n)
                .map(|i| {
                    let sh = rng.below(6);
                    if i == 0 { first } else { 1 + rng.below(1 << sh) as usize }
                })
                .collect();
            Schedule {
                chunks,
                rest: 1 + rng.below(64) as usize,
            }
        }
        3 => Schedule::first_then(first, 1 << rng.below(14)),
        4 => Schedule::first_then(first, 8192),
        5 => Schedule::first_then(first, 65536),
        6 => Schedule::first_then(first, 1),
        7 => {
            // cut exactly at structural boundaries (lines / blocks), +-1
            let mut chunks = vec![];
            let mut prev = 0usize;
            for &b in boundaries {
                let jitter = rng.below(3) as isize - 1;
                let b = (b as isize + jitter).max(prev as isize + 1) as usize;
                if b > prev && b <= len {
                    chunks.push(b - prev);
                    prev = b;
                }
                if chunks.len() > 200 {
                    break;
                }
            }
            Schedule {
                chunks,
                rest: 1 + rng.below(4096) as usize,
            }
        }
        _ => {
            let n = rng.range(1, 12);
            let chunks = (0..n).map(|_| rng.range(1, 19)).collect();
            Schedule {
                chunks,
                rest: rng.range(1, 300),
            }
        }
    }
}

pub fn gen_first_chunk(rng: &mut Rng, len: usize, boundaries: &[usize]) -> usize {
    let len = len.max(1);
    match rng.below(6) {
        0 => *rng.pick(&[1usize, 2, 3, 5, 6, 7, 17, 18, 19, 27, 28, 29]),
        1 => {
            if boundaries.is_empty() {
                rng.range(1, len)
            } else {
                let b = *rng.pick(boundaries) as isize + rng.below(3) as isize - 1;
                b.clamp(1, len as isize) as usize
            }
        }
        2 => len.saturating_sub(rng.below(3) as usize).max(1),
        3 => rng.range(1, len.min(128)),
        _ => rng.range(1, len),
    }
}
