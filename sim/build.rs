// Passes the repository root to the harness so that the unmodified CLI accumulation loop
// (cli/src/create/runner.rs) can be compiled into it with include!.
fn main() {
    let root = std::env::var("VERIF_REPO_ROOT").unwrap_or_else(|_| "/repo".to_string());
    println!("cargo:rustc-env=VERIF_REPO_ROOT={root}");
    println!("cargo:rerun-if-env-changed=VERIF_REPO_ROOT");
    println!("cargo:rerun-if-changed={root}/cli/src/create/runner.rs");
    // The simulator implements the public trait genotype::Reader for its simulated record source.
    // Two shapes of `read_genotypes` are supported: returning the genotypes (as pinned) and filling a
    // caller-owned buffer (`&mut Vec<Result>` argument, `ReadStatus<()>`), a plausible buffer-reuse
    // refactoring. Anything else stops the build (harness error, exit 2) and needs the harness adapted.
    let trait_src = format!("{root}/core/src/input/genotype/reader.rs");
    println!("cargo:rerun-if-changed={trait_src}");
    println!("cargo:rustc-check-cfg=cfg(verif_geno_fill)");
    if let Ok(src) = std::fs::read_to_string(&trait_src) {
        let flat: String = src.split_whitespace().collect::<Vec<_>>().join(" ");
        if flat.contains("fn read_genotypes(&mut self, ") && flat.contains("&mut Vec<") {
            println!("cargo:rustc-cfg=verif_geno_fill");
        }
    }
}
